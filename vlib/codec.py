"""Input construction helpers (NOT an oracle).

Everything here only serves to *build interesting inputs* - valid phrases with chosen words, images
with matching check values, seeds that put a chosen index at a chosen position.  Whether the library
treats those inputs correctly is decided by TLC against the TLA+ specification, never by this code: a
mistake here changes which inputs are tried, not what is accepted.
"""
import json
import os
import unicodedata

GOLDEN = os.path.join(os.path.dirname(os.path.dirname(os.path.abspath(__file__))), "golden")
_lists = None


def lists():
    global _lists
    if _lists is None:
        _lists = json.load(open(os.path.join(GOLDEN, "lists.json")))
        for L in _lists["langs"]:
            L["wb"] = [bytes(w) for w in L["words"]]
            L["wcb"] = [bytes(w) for w in L["wordsC"]]
    return _lists


def lang(lid):
    for L in lists()["langs"]:
        if L["id"] == lid:
            return L
    raise KeyError(lid)


LANG_IDS = ["en", "jp", "ko", "es", "fr", "it", "cs", "pt", "zh_s", "zh_t"]


def mulx(a):
    a <<= 1
    if a & 2048:
        a ^= 2048 | 5
    return a


def poly_eval(c):
    r = 0
    for v in reversed(c):
        r = mulx(r) ^ v
    return r


def data_words(secret, birthday, features):
    """secret: 19 bytes (top two bits of the last ignored)."""
    bits = []
    for i in range(18):
        for b in range(7, -1, -1):
            bits.append((secret[i] >> b) & 1)
    for b in range(5, -1, -1):
        bits.append((secret[18] >> b) & 1)
    extra = (features << 10) | birthday
    out = []
    for j in range(15):
        v = 0
        for b in bits[10 * j:10 * j + 10]:
            v = (v << 1) | b
        v = (v << 1) | ((extra >> (14 - j)) & 1)
        out.append(v)
    return out


def words_of(secret, birthday, features, coin=0):
    d = [0] + data_words(secret, birthday, features)
    d[0] = poly_eval(d)
    d[1] ^= coin
    return d


def seed_of_words(w, coin=0):
    w = list(w)
    w[1] ^= coin
    bits = []
    extra = 0
    for j in range(1, 16):
        extra = (extra << 1) | (w[j] & 1)
        for b in range(10, 0, -1):
            bits.append((w[j] >> b) & 1)
    sec = bytearray(19)
    for i in range(18):
        v = 0
        for b in bits[8 * i:8 * i + 8]:
            v = (v << 1) | b
        sec[i] = v
    v = 0
    for b in bits[144:150]:
        v = (v << 1) | b
    sec[18] = v
    return bytes(sec), extra & 1023, extra >> 10


def fix_check(w, coin=0):
    """Set word 0 so that the phrase is valid for `coin`."""
    w = list(w)
    w[1] ^= coin
    w[0] = 0
    w[0] = poly_eval(w)
    w[1] ^= coin
    return w


def phrase(lid, idx, composed=None, sep=None):
    L = lang(lid)
    if composed is None:
        composed = L["compose"]
    ws = L["wcb"] if composed else L["wb"]
    if sep is None:
        sep = bytes(L["sepC"] if composed else L["sep"])
    return sep.join(ws[i] for i in idx)


def image(secret, birthday, features, check=None):
    if check is None:
        check = words_of(secret, birthday, features)[0]
    v = (features << 10) | birthday
    return b"POLYSEED" + bytes([v & 255, v >> 8]) + bytes(secret[:19]) + b"\xff" + bytes([(0x7000 | check) & 255, (0x7000 | check) >> 8])


def nfc(b):
    return unicodedata.normalize("NFC", b.decode("utf-8")).encode("utf-8")


def nfd(b):
    return unicodedata.normalize("NFD", b.decode("utf-8")).encode("utf-8")


EPOCH = 1635768000
STEP = 2629746


class Rng:
    """SplitMix64: all random choices derive from VERIF_SEED."""

    def __init__(self, seed):
        self.s = (seed * 0x9E3779B97F4A7C15 + 0x1234567) & 0xFFFFFFFFFFFFFFFF

    def u64(self):
        self.s = (self.s + 0x9E3779B97F4A7C15) & 0xFFFFFFFFFFFFFFFF
        z = self.s
        z = ((z ^ (z >> 30)) * 0xBF58476D1CE4E5B9) & 0xFFFFFFFFFFFFFFFF
        z = ((z ^ (z >> 27)) * 0x94D049BB133111EB) & 0xFFFFFFFFFFFFFFFF
        return z ^ (z >> 31)

    def below(self, n):
        return self.u64() % n

    def bytes(self, n):
        out = bytearray()
        while len(out) < n:
            out += self.u64().to_bytes(8, "little")
        return bytes(out[:n])

    def choice(self, xs):
        return xs[self.below(len(xs))]

    def chance(self, num, den):
        return self.below(den) < num

    def shuffle(self, xs):
        for i in range(len(xs) - 1, 0, -1):
            j = self.below(i + 1)
            xs[i], xs[j] = xs[j], xs[i]
