"""Check framework: executions -> driver traces -> TLC verdicts -> VIOLATION lines + evidence."""
import hashlib
import json
import os
import re
import sys
import time

from . import run
from . import gen
from .run import Infra

ROOT = run.ROOT
REPLAYS = os.path.join(ROOT, "replays") if "VERIF_EVIDENCE_DIR" not in os.environ else os.path.join(os.environ["VERIF_EVIDENCE_DIR"], "replays")
EVIDENCE = os.environ.get("VERIF_EVIDENCE_DIR", os.path.join(ROOT, "evidence"))
KNOWN = os.path.join(ROOT, "known_findings.txt")


class Exec:
    """One execution: a script that starts from the library's initial state."""

    def __init__(self, name, lines, variant="plain", note=None):
        self.name = re.sub(r"[^A-Za-z0-9_.:-]", "_", name)
        self.lines = lines
        self.variant = variant
        self.note = note

    def script(self):
        return ["exec " + self.name] + self.lines


def known_findings():
    out = []
    if os.path.exists(KNOWN):
        for line in open(KNOWN):
            line = line.strip()
            if line.startswith("known:"):
                kv = dict(re.findall(r"(\w+)=(\S+)", line))
                kv["text"] = line
                out.append(kv)
    return out


class Check:
    def __init__(self, pid, tier, seed):
        self.pid = pid
        self.tier = tier
        self.seed = seed
        self.work = run.Work(pid)
        self.t0 = time.time()
        self.models = []          # results of TLC model runs
        self.execs = []
        self.samples = []
        self.notes = []
        self.assumptions = []
        self.violations = []      # (replay path, text)
        self.known_hits = []
        self.infra = []
        self.states = 0
        self.transitions = 0
        self.accepted_execs = 0
        self.events = 0
        self.begin_hashes = set()
        self.begin_count = 0
        self.foreign_notes = set()
        self.extra = {}
        self.shapes = set()       # (op, status, dependency-call shape) of every call recorded from the code
        self.outcomes = {}        # (op, status) -> number of calls recorded from the code
        self.level = "model_checking"
        self.rule = ""
        self.exhaustive = None

    # ------------------------------------------------------------------ models
    def model(self, module, cfg, must_hold=True, **kw):
        """Run a TLC model; a failing model is a specification-level violation of this property."""
        res = run.run_model(self.work, module, cfg, **kw)
        self.states += res["states"]
        self.transitions += res["transitions"]
        summary = dict(cfg=cfg, states=res["states"], transitions=res["transitions"], ok=res["ok"], wall_s=round(res["wall"], 1))
        cov = re.findall(r"^<(\w+) line \d+.*?>: (\d+):(\d+)", res["out"], re.M)
        if cov:
            summary["coverage"] = {a: [int(x), int(y)] for a, x, y in cov}
        self.models.append(summary)
        if must_hold and not res["ok"]:
            tail = "\n".join(res["out"].splitlines()[-80:])
            if re.search(r"Invariant .* is violated|Temporal properties were violated|Assumption .* is false|is violated", res["out"]):
                p = self.write_replay(dict(kind="model", module=module, cfg=cfg, output=tail[-8000:]))
                self.violations.append((p, "specification-level: %s / %s" % (module, cfg)))
            else:
                self.infra.append("TLC failed on %s/%s:\n%s" % (module, cfg, tail[-4000:]))
        return res

    # ------------------------------------------------------------------ traces
    def add(self, ex):
        if not getattr(self, "script_sample", None) and 3 < len(ex.lines) < 60:
            self.script_sample = dict(execution=ex.name, build=ex.variant, script=[l[:160] for l in ex.lines[:25]])
        import random
        import zlib
        if not ex.name.endswith(("~p", "~u")) and ex.variant not in ("dbg", "uchar_dbg"):
            ex.lines = gen.vary_configuration(ex.lines, random.Random(zlib.crc32(("cfg/%d/%s" % (self.seed, ex.name)).encode())))
        self.execs.append(ex)
        # Every check also runs a sample of its executions (a) with model-level no-ops woven in - the dependency set
        # injected again, the mask changed and restored, unrelated seeds decoded / created / freed, the allocator
        # refusing during a call - and (b) in the -funsigned-char build: what an operation returns depends on its
        # arguments, the mask and the injected functions, not on history, allocator mood or the signedness of char
        if ex.name.endswith(("~p", "~u")) or not any(l.split(" ", 1)[0] in gen.API_OPS for l in ex.lines):
            return
        if ex.variant == "plain" and len(getattr(self, "mt_candidates", [])) < 400:
            self.mt_candidates = getattr(self, "mt_candidates", []) + [ex]
        import random
        import zlib
        h = zlib.crc32(("%d/%s" % (self.seed, ex.name)).encode())
        if h % 6 == 0 and len(ex.lines) < 4000:
            pl = gen.perturb_lines(ex.lines, random.Random(h))
            if pl != ex.lines:
                self.execs.append(Exec(ex.name + "~p", pl, variant=ex.variant, note="with model-level no-ops woven in"))
                self.perturbed = getattr(self, "perturbed", 0) + 1
        if h % 10 == 1 and ex.variant == "plain":
            self.execs.append(Exec(ex.name + "~u", ex.lines, variant="uchar", note="the same execution in the -funsigned-char build"))
            self.uchar_copies = getattr(self, "uchar_copies", 0) + 1

    def chunks(self, execs, max_lines):
        cur, n, out = [], 0, []
        for ex in execs:
            k = len(ex.lines) + 1
            if cur and n + k > max_lines:
                out.append(cur)
                cur, n = [], 0
            cur.append(ex)
            n += k
        if cur:
            out.append(cur)
        return out

    def validate(self, max_lines=None, focus=None):
        """Record and judge all pending executions."""
        focus = focus or self.pid
        execs, self.execs = self.execs, []
        by_variant = {}
        for ex in execs:
            by_variant.setdefault(ex.variant, []).append(ex)
        jobs = []
        total = sum(len(e.lines) + 1 for e in execs)
        if max_lines is None:
            max_lines = max(200, min(3000, total // (run.NCPU * 2) + 1))
        for variant, exs in by_variant.items():
            self.work.driver(variant)
            for ch in self.chunks(exs, max_lines):
                jobs.append((variant, ch))
        import concurrent.futures as cf

        def rec(job):
            variant, ch = job
            lines = []
            for ex in ch:
                lines += ex.script()
            return self.work.record(variant, lines)

        with cf.ThreadPoolExecutor(run.NCPU) as pool:
            traces = list(pool.map(rec, jobs))
        results = run.judge(self.work, traces, focus)
        for (variant, ch), tr, res in zip(jobs, traces, results):
            self.absorb(variant, ch, tr, res, focus)

    def scan_trace(self, tr):
        """Counts for the evidence file; returns the list of (line_no, exec name) of Reset events."""
        resets = []
        n = 0
        cur_op, shape = None, []
        with open(tr) as f:
            for i, line in enumerate(f, 1):
                n += 1
                if line.startswith('{"e":"Begin"'):
                    m = re.match(r'\{"e":"Begin","op":"(\w+)"', line)
                    cur_op, shape = (m.group(1) if m else None), []
                elif cur_op and line.startswith(('{"e":"Alloc"', '{"e":"Free"', '{"e":"Memzero"')):
                    m = re.match(r'\{"e":"(\w+)".*?"blk":(-?\d+)', line)
                    b = int(m.group(2))
                    shape.append((m.group(1), "block" if b >= 1 else "null" if b == 0 else "stack"))
                elif cur_op and line.startswith(('{"e":"Rand"', '{"e":"Time"', '{"e":"Kdf"', '{"e":"Nfc"')):
                    shape.append((line[6:line.index('"', 6)], "-"))
                elif cur_op and line.startswith('{"e":"Ret"'):
                    m = re.search(r'"st":(\d+)', line[:200])
                    self.shapes.add((cur_op, int(m.group(1)) if m else 0, tuple(shape)))
                    key = "%s:%s" % (cur_op, m.group(1) if m else "-")
                    self.outcomes[key] = self.outcomes.get(key, 0) + 1
                    cur_op = None
                if line.startswith('{"e":"Unavailable"'):
                    self.unavailable = getattr(self, "unavailable", set()) | {json.loads(line)["what"]}
                if line.startswith('{"e":"Sweep"'):
                    d = json.loads(line)
                    self.swept = getattr(self, "swept", 0) + d["n"]
                    self.sweep_hits = getattr(self, "sweep_hits", 0) + d["hits"]
                if line.startswith('{"e":"Reset"'):
                    resets.append((i, json.loads(line)["name"]))
                elif line.startswith('{"e":"Begin"') or line.startswith('{"e":"Find"') or line.startswith('{"e":"Words"') \
                        or line.startswith('{"e":"Eval"') or line.startswith('{"e":"Mul2"'):
                    self.begin_count += 1
                    self.begin_hashes.add(hashlib.blake2b(line.encode(), digest_size=8).digest())
                    if len(self.samples) < 5 and self.begin_count % 37 == 1 and '"op":"Inject"' not in line[:40] \
                            and '"op":"Free"' not in line[:40] and '"op":"Enable"' not in line[:40]:
                        self.samples.append(json.loads(line[:4000]) if len(line) < 4000 else line[:300])
        self.events += n
        return resets

    def absorb(self, variant, ch, tr, res, focus, confirm=True):
        if res.get("infra"):
            self.infra.append(res["infra"])
            return
        resets = self.scan_trace(tr)
        self.states += res["states"]
        self.transitions += res["transitions"]
        for f in res["foreign"]:
            m = re.search(r'"([a-z0-9-]+)", \{([^}]*)\}', f)
            if m:
                self.foreign_notes.add("%s {%s}" % (m.group(1), m.group(2)))
        if res["envfault"]:
            self.infra.append("environment fault (normaliser disagrees with golden Unicode data): %s" % res["envfault"][0])
            return
        bad_exec = None
        if res["rejects"]:
            ln = run.line_of(res["rejects"][0])
            name = None
            for i, nm in resets:
                if i <= ln:
                    name = nm
            for ex in ch:
                if ex.name == name:
                    bad_exec = ex
        if res["accepted"]:
            self.accepted_execs += len(ch)
            return
        if res["rejects"]:
            if bad_exec is None and ch and run.line_of(res["rejects"][0]) <= 2:
                bad_exec = ch[0]        # the Start event (what the public header says) belongs to every execution
            if bad_exec is None:
                self.infra.append("rejection could not be attributed to an execution: %s" % res["rejects"][0])
                return
            # executions after the rejected one in this chunk were not judged: run them again on their own
            idx = ch.index(bad_exec)
            self.accepted_execs += idx
            self.report(variant, bad_exec, res["rejects"][0], focus, confirm)
            rest = ch[idx + 1:]
            if rest and len(self.violations) < 25:
                for ex in rest:
                    self.execs.append(ex)
                self.validate(focus=focus)

    def report(self, variant, ex, reject, focus, confirm=True):
        """A rejection counts only if a second run of the same execution repeats it."""
        if confirm:
            tr = self.work.record(variant, ex.script())
            res = run.judge(self.work, [tr], focus)[0]
            if res.get("infra"):
                self.infra.append(res["infra"])
                return
            if not res["rejects"]:
                self.notes.append("unreproducible rejection ignored: %s / %s" % (ex.name, reject))
                return
            reject = res["rejects"][0]
        m = re.search(r'"([a-z0-9\'-]+)"', reject)
        cond = m.group(1) if m else "?"
        for k in known_findings():
            if k.get("property") == self.pid and k.get("cond", cond) == cond and re.search(k.get("exec", "."), ex.name):
                if not any(t == k["text"] for t in self.known_hits):
                    self.known_hits.append(k["text"])
                return
        p = self.write_replay(dict(kind="trace", property=self.pid, focus=focus, variant=variant, name=ex.name,
                                   script=ex.script(), reject=reject, note=ex.note))
        self.violations.append((p, "%s: %s" % (ex.name, reject)))

    def require_outcomes(self, keys):
        """Vacuity guard: the check is only meaningful if these (operation:status) outcomes were actually
        produced by the library in this run; otherwise the run is an infrastructure failure, not a pass."""
        missing = [k for k in keys if not self.outcomes.get(k)]
        if missing and not self.violations:
            self.infra.append("vacuous run: the library never produced the outcomes %s" % missing)

    def write_replay(self, obj):
        os.makedirs(REPLAYS, exist_ok=True)
        body = json.dumps(obj, indent=1)
        h = hashlib.sha256(body.encode()).hexdigest()[:10]
        p = os.path.join(REPLAYS, "%s-%s.json" % (self.pid, h))
        with open(p, "w") as f:
            f.write(body)
        return p

    # ------------------------------------------------------------------ result
    def finish(self):
        os.makedirs(EVIDENCE, exist_ok=True)
        wall = time.time() - self.t0
        cov = dict(
            states=self.states, transitions=self.transitions,
            traces_validated_against_impl=self.accepted_execs,
            evaluations=self.begin_count, distinct_nontrivial=len(self.begin_hashes),
            rule=self.rule or "evaluations = API calls and direct observations recorded from the C library and judged by TLC; "
                              "distinct_nontrivial = those with distinct content (operation + arguments), by hash",
            samples=(self.samples[:5] + ([self.script_sample] if getattr(self, "script_sample", None) else []))
            or ["(no implementation events in this run)"],
            trace_events=self.events,
            models=self.models,
            checker_cmd="java -cp tla2tools.jar tlc2.TLC (TLC 1.8.0), PolyseedTrace.tla / Theorems*.tla / PolyseedMC.tla",
            outcome_coverage=dict(sorted(self.outcomes.items())),
            foreign_observations=sorted(self.foreign_notes),
            known_findings=self.known_hits,
            notes=self.notes,
            repo=run.REPO,
        )
        if self.exhaustive is not None:
            cov["exhaustive"] = self.exhaustive
        if getattr(self, "perturbed", 0) or getattr(self, "uchar_copies", 0):
            cov["executions_repeated_with_model_level_no_ops_woven_in"] = getattr(self, "perturbed", 0)
            cov["executions_repeated_in_the_unsigned_char_build"] = getattr(self, "uchar_copies", 0)
        if getattr(self, "unavailable", None):
            cov["internal_observations_unavailable_in_this_tree"] = sorted(self.unavailable)
        if getattr(self, "swept", 0):
            cov["random_tokens_swept_through_the_word_lookup"] = self.swept
            cov["swept_tokens_the_library_accepted_each_judged_by_the_specification"] = self.sweep_hits
        cov.update(self.extra)
        ev = dict(property_id=self.pid, tier=self.tier, seed=self.seed, level=self.level, coverage=cov,
                  assumptions=self.assumptions, wall_s=round(wall, 1), violations=len(self.violations))
        if not self.infra:
            with open(os.path.join(EVIDENCE, self.pid + ".json"), "w") as f:
                json.dump(ev, f, indent=1)
        self.work.cleanup()
        for t in self.known_hits:
            print("KNOWN-FINDING: property=%s %s" % (self.pid, re.sub(r"^known:\s*property=\S+\s*", "", t)))
        for n in sorted(self.foreign_notes):
            print("NOTE: also saw a failed condition of other properties: %s" % n)
        if self.infra:
            for m in self.infra[:5]:
                print("INFRASTRUCTURE: " + m, file=sys.stderr)
            return 2
        if self.violations:
            for p, text in self.violations[:20]:
                print("VIOLATION property=%s replay=%s" % (self.pid, p))
                print("  " + text)
            return 1
        print("OK property=%s tier=%s: %d states, %d executions accepted, %d API events judged, %.0fs" %
              (self.pid, self.tier, self.states, self.accepted_execs, self.begin_count, wall))
        return 0


# ---------------------------------------------------------------------------------------------------
def replay(path):
    """Re-run a replay file against the current tree and print TLC's verdict."""
    obj = json.load(open(path))
    if obj.get("kind") == "symbols":
        from . import checks
        ck = Check("C20", "quick", 1)
        try:
            ck.work.driver_mt("mt_so")
            syms = checks.writable_symbols(ck)
        finally:
            ck.work.cleanup()
        extra = [x for x in syms if x not in ("polyseed_deps", "reserved_features", "polyseed_mul2_table")]
        print("writable static symbols of the library: %s" % syms)
        if extra:
            print("VIOLATION property=C20 replay=%s" % path)
            return 1
        return 0
    if obj.get("kind") == "model" and not os.path.exists(os.path.join(run.SPEC, obj["cfg"])) and not os.path.isabs(obj["cfg"]):
        print(obj.get("output", ""))
        print("VIOLATION property=%s replay=%s" % (obj.get("property", "?"), path))
        return 1
    if obj.get("kind") == "model":
        work = run.Work("replay")
        res = run.run_model(work, obj["module"], obj["cfg"])
        print("\n".join(res["out"].splitlines()[-40:]))
        work.cleanup()
        return 0 if res["ok"] else 1
    work = run.Work("replay")
    try:
        tr = work.record(obj["variant"], obj["script"])
        res = run.judge(work, [tr], obj.get("focus", "ALL"))[0]
        if res.get("infra"):
            print("INFRASTRUCTURE: " + res["infra"], file=sys.stderr)
            return 2
        print("trace: %d lines; accepted=%s" % (sum(1 for _ in open(tr)), res["accepted"]))
        for r in res["rejects"]:
            print("REJECT " + r)
        for r in res["foreign"]:
            print("FOREIGN " + r)
        if res["rejects"]:
            ln = run.line_of(res["rejects"][0])
            lines = open(tr).read().splitlines()
            for i in range(max(0, ln - 4), min(len(lines), ln)):
                print("  %4d %s" % (i + 1, lines[i][:400]))
            print("VIOLATION property=%s replay=%s" % (obj.get("property", "?"), path))
            return 1
        return 0
    finally:
        work.cleanup()


def setup():
    """Offline sanity: tools present, golden data intact, specification parses."""
    import shutil
    import subprocess
    ok = True
    for tool in ("java", "gcc", "clang", "python3"):
        if not shutil.which(tool):
            print("missing tool: " + tool)
            ok = False
    sums = json.load(open(os.path.join(ROOT, "golden", "SHA256SUMS.json")))
    for name, want in sums.items():
        if run.sha(os.path.join(ROOT, "golden", name)) != want:
            print("golden file changed: " + name)
            ok = False
    os.makedirs(run.BUILD, exist_ok=True)
    os.makedirs(REPLAYS, exist_ok=True)
    os.makedirs(EVIDENCE, exist_ok=True)
    env = dict(os.environ, GOLDEN=run.GOLDEN_LISTS, GOLDENPW=run.GOLDEN_PW)
    for mod in ("PolyseedTrace.tla", "Theorems.tla"):
        r = subprocess.run(["java", "-cp", run.JAR, "tla2sany.SANY", mod], cwd=run.SPEC, env=env,
                           stdout=subprocess.PIPE, stderr=subprocess.STDOUT, text=True)
        if r.returncode != 0 or "*** Errors" in r.stdout:
            print("specification does not parse: %s\n%s" % (mod, r.stdout[-2000:]))
            ok = False
    print("setup ok" if ok else "setup FAILED")
    return 0 if ok else 2


def baseline_off():
    """The repository's own test suite, guard off, in a scratch build directory outside /repo and /verif."""
    import shutil
    import subprocess
    import tempfile
    d = tempfile.mkdtemp(prefix="polyseed-baseline-")
    try:
        for cmd in (["cmake", "-S", run.REPO, "-B", d, "-DCMAKE_BUILD_TYPE=Release"], ["cmake", "--build", d, "-j8"]):
            r = subprocess.run(cmd, stdout=subprocess.PIPE, stderr=subprocess.STDOUT, text=True)
            if r.returncode != 0:
                print(r.stdout[-3000:])
                return 2
        r = subprocess.run([os.path.join(d, "polyseed-tests")], stdout=subprocess.PIPE, stderr=subprocess.STDOUT, text=True, cwd=d)
        print(r.stdout)
        passed = len(re.findall(r"PASSED", r.stdout))
        print("baseline: rc=%d, %d PASSED lines" % (r.returncode, passed))
        return 0 if r.returncode == 0 and "SKIPPED" not in r.stdout else 1
    finally:
        shutil.rmtree(d, ignore_errors=True)


def try_patch(patch, pids, tier="quick", keep=False):
    """Apply a patch to a scratch copy of the tree (outside /repo and /verif) and run the given checks
    against it.  Returns {pid: exit code}.  The copy is removed afterwards."""
    import shutil
    import subprocess
    import tempfile
    d = tempfile.mkdtemp(prefix="polyseed-mut-")
    try:
        for sub in ("src", "include", "tests"):
            shutil.copytree(os.path.join(run.REPO, sub), os.path.join(d, sub))
        shutil.copy(os.path.join(run.REPO, "CMakeLists.txt"), d)
        r = subprocess.run(["patch", "-p1", "-s", "-d", d, "-i", os.path.abspath(patch)], stdout=subprocess.PIPE, stderr=subprocess.STDOUT, text=True)
        if r.returncode != 0:
            print("patch does not apply: " + r.stdout[-500:])
            return None
        out = {}
        env = dict(os.environ, VERIF_REPO=d, VERIF_EVIDENCE_DIR=os.path.join(d, "evidence"))
        for pid in pids:
            r = subprocess.run([os.path.join(ROOT, "verif"), "check", pid, "--tier", tier], env=env,
                               stdout=subprocess.PIPE, stderr=subprocess.STDOUT, text=True)
            first = [l for l in r.stdout.splitlines() if l.startswith(("VIOLATION", "  ", "OK ", "INFRA", "KNOWN"))][:3]
            out[pid] = (r.returncode, first)
        return out
    finally:
        if not keep:
            shutil.rmtree(d, ignore_errors=True)
