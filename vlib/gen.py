"""Script building blocks shared by the checks."""
from . import codec
from .codec import EPOCH, STEP


def hx(b):
    return bytes(b).hex() if len(b) else "-"


class Script:
    """Accumulates driver script lines; tracks free registers."""

    def __init__(self):
        self.lines = []
        self.nstr = 0
        self.nbuf = 0

    def add(self, *parts):
        self.lines.append(" ".join(str(p) for p in parts))

    def sreg(self):
        self.nstr += 1
        return self.nstr

    def breg(self):
        self.nbuf += 1
        return self.nbuf

    def string(self, b):
        r = self.sreg()
        self.add("str", r, hx(b))
        return r

    def buf(self, b):
        r = self.breg()
        self.add("buf", r, hx(b))
        return r

    def make_seed(self, h, secret, birthday, features, rng, enable=None, tjit=None):
        """Manufacture the seed (secret, birthday, features) in handle register h through the public
        API only: injected random source and clock, enabled user features, and the password operation
        with a scheduled KDF mask for the encrypted bit."""
        user = features & 7
        enc = (features >> 4) & 1
        if enable is None:
            enable = user
        self.add("enable", enable)
        t = EPOCH + birthday * STEP + (rng.below(STEP) if tjit is None else tjit)
        sec = bytearray(secret[:19])
        if enc:
            mask = bytearray(rng.bytes(32))
            for i in range(19):
                sec[i] ^= mask[i]
            # the two dropped bits of the random source's last byte are arbitrary
            self.add("env", "rand=" + hx(sec), "time=%d" % t, "mask=" + hx(mask))
        else:
            self.add("env", "rand=" + hx(sec), "time=%d" % t)
        self.add("create", h, user | (rng.below(1 << 20) << 3 if rng.chance(1, 4) else 0))
        if enc:
            pw = self.string(rng.choice([b"pw", b"", b"correct horse", "pässwörd".encode()]))
            self.add("crypt", h, pw)


def boundary_secrets(rng, n_random):
    """Secrets that stress the 10+1-bit packing: unit bits, all-ones, byte-carry patterns, random."""
    out = []
    for k in range(150):
        s = bytearray(19)
        if k < 144:
            s[k // 8] = 1 << (7 - k % 8)
        else:
            s[18] = 1 << (149 - k)
        out.append(bytes(s))
    out.append(bytes([255] * 18 + [63]))
    out.append(bytes(19))
    for pat in (0xAA, 0x55, 0x0F, 0xF0, 0x81, 0x7E):
        out.append(bytes([pat] * 18 + [pat & 63]))
    for _ in range(n_random):
        s = bytearray(rng.bytes(19))
        s[18] &= 63
        out.append(bytes(s))
    return out
