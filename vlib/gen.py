"""Script building blocks shared by the checks."""
from . import codec
from .codec import EPOCH, STEP


def hx(b):
    return bytes(b).hex() if len(b) else "-"


class Script:
    """Accumulates driver script lines; tracks free registers."""

    def __init__(self):
        self.lines = []
        self.nstr = 0
        self.nbuf = 0

    def add(self, *parts):
        self.lines.append(" ".join(str(p) for p in parts))

    def sreg(self):
        self.nstr += 1
        return self.nstr

    def breg(self):
        self.nbuf += 1
        return self.nbuf

    def string(self, b):
        r = self.sreg()
        self.add("str", r, hx(b))
        return r

    def buf(self, b):
        r = self.breg()
        self.add("buf", r, hx(b))
        return r

    def make_seed(self, h, secret, birthday, features, rng, enable=None, tjit=None):
        """Manufacture the seed (secret, birthday, features) in handle register h through the public
        API only: injected random source and clock, enabled user features, and the password operation
        with a scheduled KDF mask for the encrypted bit."""
        user = features & 7
        enc = (features >> 4) & 1
        if enable is None:
            enable = user
        self.add("enable", enable)
        t = EPOCH + birthday * STEP + (rng.below(STEP) if tjit is None else tjit)
        sec = bytearray(secret[:19])
        if enc:
            mask = bytearray(rng.bytes(32))
            for i in range(19):
                sec[i] ^= mask[i]
            # the two dropped bits of the random source's last byte are arbitrary
            self.add("env", "rand=" + hx(sec), "time=%d" % t, "mask=" + hx(mask))
        else:
            self.add("env", "rand=" + hx(sec), "time=%d" % t)
        self.add("create", h, user | (rng.below(1 << 20) << 3 if rng.chance(1, 4) else 0))
        if enc:
            pw = self.string(rng.choice([b"pw", b"", b"correct horse", "pässwörd".encode()]))
            self.add("crypt", h, pw)


def boundary_secrets(rng, n_random):
    """Secrets that stress the 10+1-bit packing: unit bits, all-ones, byte-carry patterns, random."""
    out = []
    for k in range(150):
        s = bytearray(19)
        if k < 144:
            s[k // 8] = 1 << (7 - k % 8)
        else:
            s[18] = 1 << (149 - k)
        out.append(bytes(s))
    out.append(bytes([255] * 18 + [63]))
    out.append(bytes(19))
    for pat in (0xAA, 0x55, 0x0F, 0xF0, 0x81, 0x7E):
        out.append(bytes([pat] * 18 + [pat & 63]))
    for _ in range(n_random):
        s = bytearray(rng.bytes(19))
        s[18] &= 63
        out.append(bytes(s))
    return out


# ---------------------------------------------------------------------------------------------------
# State perturbation: calls that are no-ops in the abstract model (the outputs of an operation depend on
# its arguments, the enabled mask and the injected functions - on nothing else the library may remember),
# woven into an existing script.  Every inserted call is judged by the specification like any other.

API_OPS = ("create", "encode", "decode", "decodex", "store", "load", "crypt", "keygen", "bday", "feat", "isenc", "free")
PERTURB_H, PERTURB_S = 4091, 4090      # registers no script uses


def perturb_lines(lines, rnd):
    """rnd: a random.Random.  Returns the script with perturbing calls inserted before some API calls:
    the current dependency set injected again, the mask changed and restored, an unrelated phrase decoded
    (not between decoder calls: the agreement relations compare adjacent ones), an unrelated seed created and
    freed, the allocator refusing for the duration of the call."""
    out = []
    mask, depset, fail = 0, "AAAAAAAA", 0
    last_rand, last_time = None, None
    for line in lines:
        tok = line.split()
        op = tok[0] if tok else ""
        if op == "enable" and len(tok) > 1:
            try:
                mask = int(tok[1]) & 7
            except ValueError:
                pass
        elif op == "inject" and len(tok) > 1:
            depset = tok[1]
        elif op == "env":
            for t in tok[1:]:
                if t.startswith("rand="):
                    last_rand = t
                elif t.startswith("time="):
                    last_time = t
                elif t.startswith("fail="):
                    try:
                        fail = int(t[5:])
                    except ValueError:
                        fail = 1
        if op in API_OPS and rnd.random() < 0.34:
            k = rnd.randrange(6)
            # (configuration is the library's, not the calling thread's: half of these calls are made on a thread of
            # their own; only the three low bits of the enabling argument count, whatever else is set)
            th = " other" if rnd.random() < 0.5 else ""
            if k == 0:
                out.append("inject " + depset + th)
            elif k == 1:
                other = rnd.choice([m for m in range(8) if m != mask])
                hi = rnd.choice([0, 0, 8, 16, 24, 0xF8, 0xFFFFFFF8])
                out += ["enable %d" % other, "enable %d%s" % (mask | hi, th)]
            elif k == 2 and op not in ("decode", "decodex"):
                lid = rnd.choice(codec.LANG_IDS)
                idx = codec.words_of(bytes(rnd.randrange(256) for _ in range(18)) + bytes([rnd.randrange(64)]), rnd.randrange(1024), 0, 0)
                out += ["str %d %s" % (PERTURB_S, hx(codec.phrase(lid, idx))), "decode %d 0 %d" % (PERTURB_S, PERTURB_H), "free %d" % PERTURB_H]
            elif k == 3:
                out += ["env rand=%s time=%d" % (hx(bytes(rnd.randrange(256) for _ in range(19))), EPOCH + rnd.randrange(1024) * STEP + 3),
                        "create %d 0" % PERTURB_H, "free %d" % PERTURB_H]
                if last_rand or last_time:
                    out.append("env " + " ".join(x for x in (last_rand, last_time) if x))
            elif k == 4 and fail == 0:
                out += ["env fail=%d" % rnd.choice([1, 1, 2]), line, "env fail=0"]
                continue
            elif k == 5 and op != "create":
                # the clock means nothing outside creation: any reading, earlier or later than any seed's birthday
                t = rnd.choice([0, EPOCH - 1, EPOCH, EPOCH + rnd.randrange(1024) * STEP, 2 ** 32 - 1, 2 ** 64 - 1, EPOCH + 3 * STEP])
                out += ["env time=%d libctime=%d" % (t, t), line]
                if last_time:
                    out.append("env " + last_time)
                continue
        out.append(line)
    return out


def vary_configuration(lines, rnd):
    """The same script with its calls varied in ways the model ignores: only the three low bits of the enabling argument
    count (whatever else is set), it does not matter which thread configures the library, and automatic decoding gives
    the same answers whether or not the caller asks for the language."""
    out = []
    for line in lines:
        tok = line.split()
        if len(tok) == 2 and tok[0] == "enable" and tok[1].isdigit() and int(tok[1]) < 8 and rnd.random() < 0.4:
            hi = rnd.choice([8, 16, 24, 0xF8, 0xFFFFFFF8, 0x80000000, 32])
            line = "enable %d%s" % (int(tok[1]) | hi, " other" if rnd.random() < 0.3 else "")
        elif len(tok) == 2 and tok[0] in ("enable", "inject") and rnd.random() < 0.25:
            line += " other"
        elif len(tok) == 4 and tok[0] == "decode" and rnd.random() < 0.25:
            line += " nolang"          # the language pointer is optional: same answers without it
        out.append(line)
    return out
