"""Build the conformance driver from the tree under test, run scripts through it, and have TLC judge
the recorded traces against the TLA+ specification.  Python only orchestrates; it decides nothing."""
import concurrent.futures as cf
import hashlib
import json
import os
import re
import shutil
import subprocess
import sys
import time

ROOT = os.path.dirname(os.path.dirname(os.path.abspath(__file__)))
REPO = os.environ.get("VERIF_REPO", "/repo")
BUILD = os.path.join(ROOT, "build")
SPEC = os.path.join(ROOT, "spec")
GOLDEN_LISTS = os.path.join(ROOT, "golden", "lists.json")
GOLDEN_PW = os.path.join(ROOT, "golden", "passwords.json")
JAR = "/opt/veriftools/tla/tla2tools.jar:/opt/veriftools/tla/CommunityModules-deps.jar"
NCPU = int(os.environ.get("VERIF_JOBS", "16"))

WRAPS = ("malloc free time rand random clock_gettime gettimeofday getrandom getentropy calloc realloc timespec_get clock rand_r drand48 lrand48 mrand48 "
         "arc4random arc4random_buf arc4random_uniform posix_memalign aligned_alloc memalign valloc strdup strndup explicit_bzero strtok getenv secure_getenv setlocale prctl").split()

SAN = ["-fsanitize=address,undefined", "-fno-sanitize-recover=all", "-fno-omit-frame-pointer", "-g"]
VARIANTS = {
    # name: (compiler, library flags, harness flags, link flags)
    "plain": ("gcc", ["-O2", "-DNDEBUG"], ["-O2"], []),
    "O0": ("gcc", ["-O0", "-DNDEBUG"], ["-O2"], []),
    "O3": ("gcc", ["-O3", "-DNDEBUG"], ["-O2"], []),
    "dbg": ("gcc", ["-O1"], ["-O2"], []),
    "schar": ("gcc", ["-O2", "-DNDEBUG", "-fsigned-char"], ["-O2", "-fsigned-char"], []),
    "uchar": ("gcc", ["-O2", "-DNDEBUG", "-funsigned-char"], ["-O2", "-funsigned-char"], []),
    "uchar_dbg": ("gcc", ["-O1", "-funsigned-char"], ["-O2", "-funsigned-char"], []),
    "san": ("clang", ["-O1"] + SAN, ["-O1", "-DDRV_NO_STACKSWITCH"] + SAN, SAN),
    "san_uchar": ("clang", ["-O1", "-funsigned-char"] + SAN, ["-O1", "-DDRV_NO_STACKSWITCH", "-funsigned-char"] + SAN, SAN),
}


class Infra(Exception):
    """Infrastructure failure: exit code 2, never a verdict."""


def sh(cmd, **kw):
    return subprocess.run(cmd, stdout=subprocess.PIPE, stderr=subprocess.STDOUT, text=True, **kw)


class Work:
    """Scratch directory of one check invocation (under /verif/build, removed at the end)."""

    def __init__(self, name):
        self.dir = os.path.join(BUILD, "work", "%s-%d" % (name, os.getpid()))
        shutil.rmtree(self.dir, ignore_errors=True)
        os.makedirs(self.dir)
        self.drivers = {}
        self.n = 0

    def path(self, name):
        return os.path.join(self.dir, name)

    def fresh(self, suffix):
        self.n += 1
        return self.path("f%05d%s" % (self.n, suffix))

    def cleanup(self):
        if not os.environ.get("VERIF_KEEP"):
            shutil.rmtree(self.dir, ignore_errors=True)

    # -------------------------------------------------------------------------------------------
    def driver(self, variant):
        """Compile the library sources of the CURRENT working tree plus the driver."""
        if variant in self.drivers:
            return self.drivers[variant]
        cc, lib, har, link = VARIANTS[variant]
        obj = self.path("obj-" + variant)
        os.makedirs(obj)
        srcs = sorted(f for f in os.listdir(os.path.join(REPO, "src")) if f.endswith(".c"))
        if not srcs:
            raise Infra("no sources under %s/src" % REPO)
        inc = ["-std=gnu11", "-DPOLYSEED_STATIC", "-iquote", os.path.join(REPO, "src"), "-I", os.path.join(REPO, "include")]
        jobs = []
        for f in srcs:
            jobs.append([cc] + inc + lib + ["-c", os.path.join(REPO, "src", f), "-o", os.path.join(obj, f[:-2] + ".o")])
        jobs.append([cc] + inc + har + ["-c", os.path.join(ROOT, "harness", "driver.c"), "-o", os.path.join(obj, "zz_driver.o")])
        with cf.ThreadPoolExecutor(NCPU) as ex:
            for r in ex.map(sh, jobs):
                if r.returncode != 0:
                    raise Infra("build (%s) failed:\n%s" % (variant, r.stdout[-3000:]))
        self.internals(variant, cc, inc, har, link, obj, [os.path.join(obj, f[:-2] + ".o") for f in srcs])
        out = self.path("driver-" + variant)
        objs = [os.path.join(obj, f) for f in sorted(os.listdir(obj)) if f.endswith(".o")]
        r = sh([cc] + link + objs + ["-o", out, "-lutf8proc", "-lpthread", "-Wl,-z,now", "-Wl," + ",".join("--wrap=" + w for w in WRAPS)])
        if r.returncode != 0:
            raise Infra("link (%s) failed:\n%s" % (variant, r.stdout[-3000:]))
        self.drivers[variant] = out
        return out

    FEATURES = ("MUL2", "POLYEVAL", "FIND", "LANG", "DATASIZE")

    def internals(self, variant, cc, inc, har, link, obj, libobjs, absent=False):
        """Optional direct observations of internals (harness/internals.c), one object per feature: compiled
        and test-linked against the tree under test; a feature the tree does not offer (renamed, removed,
        made static ...) is compiled as absent and the driver reports the observation as unavailable."""
        src = os.path.join(ROOT, "harness", "internals.c")
        main = os.path.join(obj, "zy_probe_main.c")
        with open(main, "w") as f:
            f.write("int main(void) { return 0; }\n")
        missing = []

        def one(feat):
            o = os.path.join(obj, "zi_%s.o" % feat.lower())
            if not absent:
                r = sh([cc] + inc + har + ["-DPROBE_" + feat, "-c", src, "-o", o])
                if r.returncode == 0:
                    r = sh([cc] + link + [main, o] + libobjs + ["-o", os.path.join(obj, "zy_probe_" + feat), "-lutf8proc", "-lpthread"])
                    for x in ("zy_probe_" + feat,):
                        try:
                            os.remove(os.path.join(obj, x))
                        except OSError:
                            pass
                    if r.returncode == 0:
                        return None
            r = sh([cc] + inc + har + ["-DPROBE_" + feat, "-DABSENT", "-c", src, "-o", o])
            if r.returncode != 0:
                raise Infra("build (%s) of the internals stub failed:\n%s" % (variant, r.stdout[-2000:]))
            return feat
        with cf.ThreadPoolExecutor(NCPU) as ex:
            missing = [m for m in ex.map(one, self.FEATURES) if m]
        os.remove(main)
        self.missing_internals = getattr(self, "missing_internals", {})
        self.missing_internals[variant] = missing
        return missing

    # -------------------------------------------------------------------------------------------
    def record(self, variant, script_lines):
        """Run one script through the driver; returns the trace path."""
        drv = self.driver(variant)
        sp = self.fresh(".script")
        tp = sp[:-7] + ".ndjson"
        with open(sp, "w") as f:
            f.write("\n".join(script_lines) + "\n")
        env = dict(os.environ)
        env["ASAN_OPTIONS"] = "detect_leaks=0:abort_on_error=0:handle_abort=0:allocator_may_return_null=1:detect_stack_use_after_return=0"
        env["UBSAN_OPTIONS"] = "print_stacktrace=1:halt_on_error=1"
        try:
            r = subprocess.run([drv, sp, tp], stdout=subprocess.PIPE, stderr=subprocess.PIPE, env=env, timeout=600)
        except subprocess.TimeoutExpired:
            raise Infra("driver timed out on %s" % sp)
        err = r.stderr.decode("utf-8", "replace")
        if r.returncode not in (0,) and not os.path.exists(tp):
            raise Infra("driver failed (%d): %s" % (r.returncode, err[-2000:]))
        # a trace must end with an End event (the fault handlers write one too)
        last = b""
        with open(tp, "rb") as f:
            try:
                f.seek(-400, 2)
            except OSError:
                f.seek(0)
            last = f.read()
        if b'"e":"Fault"' in last:
            clean_trace(tp)
        if b'"inapi":false' in last:
            raise Infra("the driver itself crashed outside an API call (script %s): %s" % (sp, last[-300:]))
        if b'"e":"End"' not in last:
            with open(tp, "a") as f:
                f.write('{"e":"Fault","op":"?","what":"driver-died rc=%d","sig":0}\n{"e":"End","complete":false}\n' % r.returncode)
        if err.strip():
            with open(tp + ".stderr", "w") as f:
                f.write(err)
        return tp


    # -------------------------------------------------------------------------------------------
    def driver_mt(self, variant):
        """Multi-threaded driver.  mt_so: library as a shared object whose writable data is made
        read-only while the threads run; mt_tsan: everything under ThreadSanitizer."""
        if variant in self.drivers:
            return self.drivers[variant]
        obj = self.path("obj-" + variant)
        os.makedirs(obj)
        srcs = sorted(f for f in os.listdir(os.path.join(REPO, "src")) if f.endswith(".c"))
        inc = ["-std=gnu11", "-DPOLYSEED_STATIC", "-iquote", os.path.join(REPO, "src"), "-I", os.path.join(REPO, "include")]
        wraps = "-Wl," + ",".join("--wrap=" + w for w in WRAPS)
        out = self.path("driver-" + variant)
        if variant == "mt_so":
            # the public API must be exported from the shared object
            inc = [x for x in inc if x != "-DPOLYSEED_STATIC"]
            cc, lib, har = "gcc", ["-O2", "-DNDEBUG", "-fPIC", "-DPOLYSEED_SHARED"], ["-O2", "-DDRV_MT", "-DDRV_SO"]
        else:
            cc, lib, har = "clang", ["-O1", "-g", "-fsanitize=thread"], ["-O1", "-g", "-fsanitize=thread", "-DDRV_MT"]
        jobs = [[cc] + inc + lib + ["-c", os.path.join(REPO, "src", f), "-o", os.path.join(obj, f[:-2] + ".o")] for f in srcs]
        jobs.append([cc] + inc + har + ["-c", os.path.join(ROOT, "harness", "driver.c"), "-o", os.path.join(obj, "zz_driver.o")])
        with cf.ThreadPoolExecutor(NCPU) as ex:
            for r in ex.map(sh, jobs):
                if r.returncode != 0:
                    raise Infra("build (%s) failed:\n%s" % (variant, r.stdout[-3000:]))
        libobjs = [os.path.join(obj, f[:-2] + ".o") for f in srcs]
        # (the shared object exports the public API only: no internal observations there)
        self.internals(variant, cc, inc, har, ["-fsanitize=thread"] if variant != "mt_so" else [], obj, libobjs, absent=(variant == "mt_so"))
        intobjs = [os.path.join(obj, "zi_%s.o" % f.lower()) for f in self.FEATURES]
        if variant == "mt_so":
            so = os.path.join(obj, "libpolyseed_verif.so")
            r = sh([cc, "-shared", "-o", so] + libobjs + ["-Wl,-z,now", wraps])
            if r.returncode != 0:
                raise Infra("link (.so) failed:\n" + r.stdout[-3000:])
            r = sh([cc, os.path.join(obj, "zz_driver.o")] + intobjs + ["-o", out, "-L" + obj, "-lpolyseed_verif", "-Wl,-rpath," + obj, "-rdynamic",
                    "-lutf8proc", "-lpthread", "-Wl,-z,now", wraps])
        else:
            r = sh([cc, "-fsanitize=thread"] + libobjs + intobjs + [os.path.join(obj, "zz_driver.o"), "-o", out, "-lutf8proc", "-lpthread", "-Wl,-z,now", wraps])
        if r.returncode != 0:
            raise Infra("link (%s) failed:\n%s" % (variant, r.stdout[-3000:]))
        self.drivers[variant] = out
        return out

    def record_mt(self, variant, name, setup_lines, thread_scripts, serial=None, main_thread=False):
        """Run the threads; returns (list of per-thread traces composed with the setup events, stderr).
        serial: per-thread lists of result lines from serial runs of the same scripts; a thread whose
        results differ from them gets a serial-mismatch observer event."""
        drv = self.driver_mt(variant)
        base = self.fresh(".mt")
        setup = base + ".setup.script"
        with open(setup, "w") as f:
            f.write("\n".join(setup_lines) + "\n")
        paths = []
        for i, lines in enumerate(thread_scripts):
            p = "%s.t%d.script" % (base, i)
            with open(p, "w") as f:
                f.write("\n".join(lines) + "\n")
            paths.append(p)
        env = dict(os.environ)
        env["TSAN_OPTIONS"] = "halt_on_error=0:report_signal_unsafe=0:exitcode=0:second_deadlock_stack=1"
        try:
            r = subprocess.run([drv] + (["--serial"] if main_thread else []) + [setup, base + ".trace"] + paths, stdout=subprocess.PIPE, stderr=subprocess.PIPE, env=env, timeout=900)
        except subprocess.TimeoutExpired:
            raise Infra("multi-threaded driver timed out")
        err = r.stderr.decode("utf-8", "replace")
        if not os.path.exists(base + ".trace.setup"):
            raise Infra("multi-threaded driver failed (%d): %s" % (r.returncode, err[-2000:]))
        setup_ev = [l for l in open(base + ".trace.setup").read().splitlines() if not l.startswith(('{"e":"Start"', '{"e":"End"'))]
        start = open(base + ".trace.setup").readline().rstrip("\n")
        traces = []
        self.mt_bodies = []
        race = "ThreadSanitizer: data race" in err
        for i in range(len(thread_scripts)):
            tp = "%s.trace.%d" % (base, i)
            body = []
            complete = False
            if os.path.exists(tp):
                for l in open(tp).read().splitlines():
                    if l.startswith(('{"e":"Start"', '{"e":"Thread"')):
                        continue
                    if l.startswith('{"e":"End"'):
                        complete = '"complete":true' in l
                        continue
                    if l.strip():
                        body.append(l)
                # another thread's fault ends the process: the last line may be cut short; a fault inside one of the
                # driver's read-back calls leaves the Ret line it was writing half written
                body = drop_half_lines(body)
                while body:
                    try:
                        json.loads(body[-1])
                        break
                    except ValueError:
                        body.pop()
            self.mt_bodies.append(list(body))      # the thread's own events, without the setup prefix
            outp = "%s.t%d.ndjson" % (base, i)
            with open(outp, "w") as f:
                f.write(start + "\n")
                f.write('{"e":"Reset","name":"%s-t%d"}\n' % (name, i))
                f.write("\n".join(setup_ev + body) + "\n")
                if serial is not None and complete and result_lines(body) != serial[i]:
                    f.write('{"e":"Fault","op":"threads","what":"serial-mismatch","sig":0,"inapi":true}\n')
                    complete = False
                elif race and i == 0:
                    f.write('{"e":"Fault","op":"threads","what":"race","sig":0,"inapi":true}\n')
                    complete = False
                elif not complete and not any('"e":"Fault"' in b for b in body[-2:]):
                    f.write('{"e":"Fault","op":"threads","what":"thread-died","sig":0,"inapi":true}\n')
                f.write('{"e":"End","complete":%s}\n' % ("true" if complete else "false"))
            traces.append(outp)
        return traces, err


def drop_half_lines(lines):
    """A fault handler terminates the line being written and appends its Fault event: drop that half line."""
    out = []
    for i, l in enumerate(lines):
        if i + 1 < len(lines) and lines[i + 1].startswith('{"e":"Fault"'):
            try:
                json.loads(l)
            except ValueError:
                continue
        if not l.strip():
            continue
        out.append(l)
    return out


def clean_trace(tp):
    lines = open(tp).read().splitlines()
    new = drop_half_lines(lines)
    if new != lines:
        with open(tp, "w") as f:
            f.write("\n".join(new) + "\n")


def result_lines(lines):
    """What a thread observes: the results of its calls (Ret events) and what its dependencies were asked."""
    return [l for l in lines if l.startswith(('{"e":"Ret"', '{"e":"Kdf"', '{"e":"Nfc"', '{"e":"Nfkd"', '{"e":"Rand"', '{"e":"Time"'))]


# -----------------------------------------------------------------------------------------------
# TLC

TLC_LINE = re.compile(r'^<<"(REJECT|FOREIGN|ENVFAULT|STOPPED)", (.*)>>$')


def tlc_cmd(metadir, cfg, module, workers=1, heap="2g", extra=()):
    return ["java", "-Xss512m", "-Xmx" + heap, "-XX:+UseSerialGC" if workers == 1 else "-XX:+UseParallelGC",
            "-cp", JAR, "tlc2.TLC", "-workers", str(workers), "-metadir", metadir, "-config", cfg] + list(extra) + [module]


def parse_counts(out):
    m = re.findall(r"(\d+) states generated, (\d+) distinct states found", out)
    if not m:
        return 0, 0
    g, d = m[-1]
    return int(d), int(g)


def judge_one(args):
    trace, focus, metadir = args
    env = dict(os.environ)
    env.update({"TRACE": trace, "FOCUS": focus, "GOLDEN": GOLDEN_LISTS, "GOLDENPW": GOLDEN_PW})
    t0 = time.time()
    try:
        r = subprocess.run(tlc_cmd(metadir, "PolyseedTrace.cfg", "PolyseedTrace.tla"), cwd=SPEC, env=env,
                           stdout=subprocess.PIPE, stderr=subprocess.STDOUT, text=True, timeout=3000)
    except subprocess.TimeoutExpired:
        return dict(trace=trace, infra="TLC timed out")
    out = r.stdout
    shutil.rmtree(metadir, ignore_errors=True)
    res = dict(trace=trace, rejects=[], foreign=[], envfault=[], stopped=None, wall=time.time() - t0)
    # TLC pretty-prints long tuples over several lines
    for m in re.finditer(r'<<\s*"(REJECT|FOREIGN|ENVFAULT|STOPPED)",\s*(.*?)>>', out, re.S):
        kind, rest = m.group(1), re.sub(r"\s+", " ", m.group(2)).strip()
        if kind == "STOPPED":
            res["stopped"] = rest
        elif kind == "REJECT":
            res["rejects"].append(rest)
        elif kind == "FOREIGN":
            res["foreign"].append(rest)
        else:
            res["envfault"].append(rest)
    res["states"], res["transitions"] = parse_counts(out)
    ok = "Model checking completed. No error has been found." in out
    res["accepted"] = ok and res["stopped"] is None
    if not res["accepted"] and not res["rejects"] and not res["envfault"]:
        keep = [x for x in out.splitlines() if not x.startswith(("Parsing file", "Semantic processing", "Linting of"))]
        res["infra"] = "TLC stopped without a verdict on %s:\n" % trace + "\n".join(keep[-40:])[-5000:]
    for f in os.listdir(SPEC):
        if "_TTrace_" in f:
            try:
                os.remove(os.path.join(SPEC, f))
            except OSError:
                pass
    return res


def judge(work, traces, focus):
    jobs = [(t, focus, work.fresh(".meta")) for t in traces]
    with cf.ThreadPoolExecutor(NCPU) as ex:
        return list(ex.map(judge_one, jobs))


def run_model(work, module, cfg, workers=NCPU, heap="8g", extra=(), env_extra=None, timeout=3000):
    """Run TLC on a model (theorem configurations, state machine)."""
    env = dict(os.environ)
    env["GOLDEN"] = GOLDEN_LISTS
    env["GOLDENPW"] = GOLDEN_PW
    if env_extra:
        env.update(env_extra)
    metadir = work.fresh(".meta")
    t0 = time.time()
    try:
        r = subprocess.run(tlc_cmd(metadir, cfg, module, workers=workers, heap=heap, extra=extra), cwd=SPEC, env=env,
                           stdout=subprocess.PIPE, stderr=subprocess.STDOUT, text=True, timeout=timeout)
    except subprocess.TimeoutExpired:
        raise Infra("TLC timed out on %s" % cfg)
    shutil.rmtree(metadir, ignore_errors=True)
    out = r.stdout
    states, trans = parse_counts(out)
    ok = "Model checking completed. No error has been found." in out
    for f in os.listdir(SPEC):
        if "_TTrace_" in f:
            try:
                os.remove(os.path.join(SPEC, f))
            except OSError:
                pass
    return dict(ok=ok, states=states, transitions=trans, out=out, wall=time.time() - t0, cfg=cfg)


def line_of(rest):
    """Trace line number of a REJECT/FOREIGN tuple body."""
    m = re.match(r"\s*(\d+),", rest)
    return int(m.group(1)) if m else 0


def sha(path):
    return hashlib.sha256(open(path, "rb").read()).hexdigest()
