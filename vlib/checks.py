"""One function per property: which models TLC checks and which executions are recorded and judged."""
import os

from . import codec, gen, run
from .codec import Rng, LANG_IDS, EPOCH, STEP
from .framework import Check, Exec
from .gen import Script, hx

COINS_BOUNDARY = [0, 1, 2, 1023, 1024, 2047]
MONTHS_BOUNDARY = [0, 1, 511, 512, 1022, 1023]


def feature_choices(rng):
    """(features, enabled mask) pairs: user bits, the encrypted bit, both."""
    u = rng.below(8)
    enc = 16 if rng.chance(1, 2) else 0
    m = u | rng.below(8)
    return u | enc, m


def rand_secret(rng):
    # now and then a secret whose bytes could be mistaken for something else: all zero, all ones, a fill pattern,
    # zero but for one end (the rest of the time: uniformly random)
    k = rng.below(64)
    if k == 0:
        return bytes(19)
    if k == 1:
        return bytes([255] * 18 + [63])
    if k == 2:
        v = rng.choice([0xA5, 0x5A, 0xCC, 0xEE, 0x01, 0x80])
        return bytes([v] * 18 + [v & 63])
    if k == 3:
        b = bytearray(19)
        b[rng.choice([0, 18])] = 1 + rng.below(63)
        return bytes(b)
    b = bytearray(rng.bytes(19))
    b[18] &= 63
    return bytes(b)


def rand_idx(rng, features=0, birthday=None, coin=0):
    """Word indices of a random seed (valid for `coin`)."""
    return codec.words_of(rand_secret(rng), rng.below(1024) if birthday is None else birthday, features, coin)


_shared = {}


def shared_zh(lid):
    if lid not in _shared:
        a, b = codec.lang(lid), codec.lang("zh_t" if lid == "zh_s" else "zh_s")
        other = set(b["wb"])
        _shared[lid] = [i for i, w in enumerate(a["wb"]) if w in other]
    return _shared[lid]


def ambiguous_idx(rng, lid):
    """A valid phrase (coin 0) of lid made only of words the other Chinese list has too."""
    sh = shared_zh(lid)
    shs = set(sh)
    while True:
        w = [0] + [rng.choice(sh) for _ in range(15)]
        w[2] &= ~1
        w[0] = codec.poly_eval([0] + w[1:])
        if w[0] in shs and w[2] in shs:
            return w


def seed_script(s, h, idx, rng, enable=7, coin=0):
    """Manufacture the seed whose coin-`coin` phrase has the word indices idx."""
    sec, bday, feats = codec.seed_of_words(idx, coin)
    s.make_seed(h, sec, bday, feats, rng, enable=enable)
    return sec, bday, feats


def extremal_idx(rng, src_words, tries=60000):
    """A valid phrase (coin 0) in which every one of the 16 words - the check word too - has the maximal length."""
    mx = max(len(x) for x in src_words)
    longest = [i for i in range(2048) if len(src_words[i]) == mx]
    even = [i for i in longest if i % 2 == 0] or [i for i in range(0, 2048, 2) if len(src_words[i]) >= mx - 3]
    for _ in range(tries):
        w = [0] + [rng.choice(longest) for _ in range(15)]
        w[2] = rng.choice(even)
        w = codec.fix_check(w)
        if len(src_words[w[0]]) == mx:
            return w
    return None


def seed_with_check_word(rng, value, coin=0):
    """A seed (secret, birthday, features=0) whose phrase for `coin` has the given check word."""
    while True:
        sec, bday = rand_secret(rng), rng.below(1024)
        if codec.words_of(sec, bday, 0, coin)[0] == value:
            return sec, bday, 0


def chunk_boundary_seeds(rng):
    """Seeds that are far from linear: every 10-bit chunk of the secret takes extreme and patterned VALUES
    (1023, 1022, 512, 0x2AA, 0x155), with the word's feature/birthday bit clear and set."""
    out = []
    for j in range(15):
        for val in (1023, 1022, 512, 0x2AA, 0x155, 1):
            for extra in (0, 1):
                w = [0] + [rng.below(2048) for _ in range(15)]
                w[j + 1] = (val << 1) | extra
                w[2] &= ~1
                out.append(codec.seed_of_words(codec.fix_check(w)))
    return out


# ----------------------------------------------------------------------------------------------- C01
def c01(ck):
    rng = Rng(ck.seed)
    quick = ck.tier == "quick"
    ck.model("Theorems.tla", "Theorems_roundtrip.cfg")
    secrets = gen.boundary_secrets(rng, 20 if quick else 3000)
    if quick:
        # every unit bit is used, spread over the languages, in the full tier with all languages
        pass
    n = 0
    for si, sec in enumerate(secrets):
        feats, m = feature_choices(rng)
        bday = rng.choice(MONTHS_BOUNDARY) if rng.chance(1, 2) else rng.below(1024)
        langs = LANG_IDS if (not quick or si % 16 == 0) else [LANG_IDS[si % 10], LANG_IDS[(si // 10 + 3) % 10]]
        coins = [rng.choice(COINS_BOUNDARY), rng.below(2048)] if quick else [0, rng.choice(COINS_BOUNDARY), rng.below(2048)]
        s = Script()
        s.make_seed(0, sec, bday, feats, rng, enable=m)
        for lid in langs:
            for coin in coins:
                r = s.sreg()
                s.add("encode", 0, lid, coin, r)
                s.add("decode", r, coin, 1)
                s.add("decodex", r, coin, lid, 2)
                s.add("free", 1)
                s.add("free", 2)
        s.add("free", 0)
        ck.add(Exec("rt-%d" % si, s.lines))
    # forced ambiguity: phrases made only of words that Simplified and Traditional Chinese share
    for lid in ("zh_s", "zh_t"):
        for made in range(6 if quick else 60):
            s = Script()
            seed_script(s, 0, ambiguous_idx(rng, lid), rng)
            r = s.sreg()
            s.add("encode", 0, lid, 0, r)
            s.add("decode", r, 0, 1)
            s.add("decodex", r, 0, lid, 2)
            ck.add(Exec("ambiguous-%s-%d" % (lid, made), s.lines))
    # longest decomposed Korean / Japanese phrases: the extremal one, then a ladder of decreasing lengths
    for lid in ("ko", "jp"):
        L = codec.lang(lid)
        order = sorted(range(2048), key=lambda i: -len(L["wb"][i]))
        ext = extremal_idx(rng, L["wb"])
        for k in range(12 if quick else 120):
            if k == 0 and ext:
                w = ext
            else:
                top = 8 + (40 if quick else 8) * k          # from near-maximal down to ordinary lengths
                w = [0] + [order[rng.below(min(top, 2048))] for _ in range(15)]
                w[2] &= ~1
                w = codec.fix_check(w)
            sec, bday, feats = codec.seed_of_words(w)
            s = Script()
            s.make_seed(0, sec, bday, feats, rng, enable=7)
            r = s.sreg()
            s.add("encode", 0, lid, 0, r)
            s.add("decode", r, 0, 1)
            s.add("decodex", r, 0, lid, 2)
            ck.add(Exec("long-%s-%d" % (lid, k), s.lines))
    boundary_phrase_execs(ck, rng, "c01")
    ambiguous_phrase_execs(ck, rng, "c01")
    ck.validate()
    ck.require_outcomes(["Encode:-", "Decode:0", "DecodeX:0", "Decode:7"])
    ck.assumptions += ["NFC/NFKD are supplied by utf8proc 2.8 as the injected dependency; its NFC output is compared with Python unicodedata (golden) on every composed phrase",
                       "golden word lists equal the pinned release (re-established exhaustively by check C07)"]



# ----------------------------------------------------------------------------------------------- helpers
def header_strsize(ck):
    """POLYSEED_STR_SIZE of the header under test, as the compiled driver reports it."""
    import json
    tr = ck.work.record("plain", [])
    return json.loads(open(tr).readline())["strsize"]


def lists_cfg(ck, strsize):
    p = ck.work.path("TheoremsLists_%d.cfg" % strsize)
    with open(p, "w") as f:
        f.write("SPECIFICATION Spec\nCONSTANT StrSize = %d\nINVARIANT Holds\nCHECK_DEADLOCK FALSE\n" % strsize)
    return p


def chunked(xs, n):
    for i in range(0, len(xs), n):
        yield xs[i:i + n]


# ----------------------------------------------------------------------------------------------- C02
def c02(ck):
    rng = Rng(ck.seed)
    quick = ck.tier == "quick"
    for fam in ("gfmulx", "gfsingle", "gfswap", "gfunique"):
        ck.model("Theorems.tla", "Theorems_%s.cfg" % fam)
    # (a) the arithmetic core of the implementation, exhaustively
    lines = ["mul2all"]
    for pos in range(16):
        ds = range(1, 2048) if (not quick or pos in (0, 15)) else sorted(set([1, 2, 3, 1023, 1024, 1025, 2047] + [rng.below(2047) + 1 for _ in range(120)]))
        for d in ds:
            c = [0] * 16
            c[pos] = d
            lines.append("polyeval " + " ".join(map(str, c)))
    for _ in range(300 if quick else 3000):
        lines.append("polyeval " + " ".join(str(rng.below(2048)) for _ in range(16)))
    for i, ch in enumerate(chunked(lines, 1500)):
        ck.add(Exec("gf-core-%d" % i, ch))
    # (b) substitutions and swaps through the public API
    for lid in LANG_IDS:
        for rep in range(1 if quick else 3):
            coin = rng.choice(COINS_BOUNDARY)
            idx = rand_idx(rng, features=rng.choice([0, 16]), coin=coin)
            s = Script()
            s.add("enable", 7)
            for pos in range(16):
                cands = {idx[pos] ^ 1, idx[pos] ^ 1024, (idx[pos] + 1) % 2048, (idx[pos] - 1) % 2048}
                if quick:
                    cands |= {rng.below(2048) for _ in range(6)}
                else:
                    cands |= {rng.below(2048) for _ in range(40)}
                cands.discard(idx[pos])
                for v in sorted(cands):
                    w = list(idx)
                    w[pos] = v
                    r = s.string(codec.phrase(lid, w))
                    s.add("decodex", r, coin, lid, 1)
                    s.add("free", 1)
                    if v % 4 == 0:
                        s.add("decode", r, coin, 1)
                        s.add("free", 1)
            ck.add(Exec("subst-%s-%d" % (lid, rep), s.lines))
            s = Script()
            s.add("enable", 7)
            pairs = [(i, j) for i in range(16) for j in range(i + 1, 16)]
            if quick and lid not in ("en", "ko"):
                rng.shuffle(pairs)
                pairs = pairs[:24]
            for i, j in pairs:
                w = list(idx)
                w[i], w[j] = w[j], w[i]
                r = s.string(codec.phrase(lid, w))
                s.add("decodex", r, coin, lid, 1)
                s.add("free", 1)
            # exchanging equal words changes nothing
            w = list(idx)
            w[9] = w[4]
            w = codec.fix_check(w, coin)
            if w[0] != w[4]:
                r = s.string(codec.phrase(lid, w))
                w2 = list(w)
                w2[4], w2[9] = w2[9], w2[4]
                s.add("decodex", r, coin, lid, 1)
                s.add("free", 1)
            ck.add(Exec("swap-%s-%d" % (lid, rep), s.lines))
    # the one check word that validates does validate - through both decoders - and a substituted first word
    # does not, whichever other lists know that word too
    for lid in LANG_IDS:
        L = codec.lang(lid)
        s = Script()
        s.add("enable", 7)
        for rep in range(16 if quick else 200):
            coin = rng.choice(COINS_BOUNDARY + [rng.below(2048)])
            idx = rand_idx(rng, features=rng.choice([0, 16]), coin=coin)
            r = s.string(codec.phrase(lid, idx))
            s.add("decode", r, coin, 1)
            s.add("free", 1)
            s.add("decodex", r, coin, lid, 1)
            s.add("free", 1)
            for pos in (0, 1, rng.below(16)):
                w = list(idx)
                w[pos] = rng.choice([w[pos] ^ 1, (w[pos] + 1) % 2048, rng.below(2048)])
                if w[pos] == idx[pos]:
                    continue
                r = s.string(codec.phrase(lid, w))
                s.add("decode", r, coin, 1)
                s.add("free", 1)
        ck.add(Exec("valid-and-first-%s" % lid, s.lines))
    # no two words of a list stand for the same value: every word of every list, at a data position of a valid phrase,
    # through both decoders (two words sharing an index would make the substitution of one for the other invisible)
    for lid in LANG_IDS:
        order = list(range(2048))
        rng.shuffle(order)
        slots = [1] + list(range(3, 16))          # (position 2 carries the reserved feature bit: filler there)
        for part, grp in enumerate(chunked(order, 14 * 37)):
            s = Script()
            s.add("enable", 7)
            for ws in chunked(grp, 14):
                w = [0] + [rng.below(2048) for _ in range(15)]
                for p_, v in zip(slots, ws):
                    w[p_] = v
                w[2] &= ~1
                w = codec.fix_check(w)
                r = s.string(codec.phrase(lid, w))
                s.add("decodex", r, 0, lid, 1)
                s.add("free", 1)
                if not quick or rng.chance(1, 4):
                    s.add("decode", r, 0, 1)
                    s.add("free", 1)
            ck.add(Exec("every-word-%s-%d" % (lid, part), s.lines))
    # erasure recovery: exactly one word validates at a missing position
    for rep in range(2 if quick else 8):
        lid = "en" if rep == 0 else rng.choice(LANG_IDS)
        idx = rand_idx(rng)
        pos = rng.below(16)
        if rep == 1:        # the check word itself missing, on a phrase whose check word is entry 0
            sec, bday, f = seed_with_check_word(rng, 0)
            idx = codec.words_of(sec, bday, f)
            pos = 0
        for part, vs in enumerate(chunked(list(range(2048)), 512)):
            s = Script()
            s.add("enable", 7)
            for v in vs:
                w = list(idx)
                w[pos] = v
                s.add("decodex", s.string(codec.phrase(lid, w)), 0, lid, 1)
                s.add("free", 1)
            ck.add(Exec("erasure-%s-p%d-%d-%d" % (lid, pos, rep, part), s.lines))
    # (c) serialised seeds with an altered check value
    sec = rand_secret(rng)
    good = codec.words_of(sec, 321, 0)[0]
    ds = range(1, 2048) if not quick else range(1, 2048, 8)
    for part, dd in enumerate(chunked(list(ds), 512)):
        s = Script()
        for d in dd:
            s.add("load", s.buf(codec.image(sec, 321, 0, good ^ d)), 1)
            s.add("free", 1)
        ck.add(Exec("load-check-%d" % part, s.lines))
    boundary_phrase_execs(ck, rng, "c02")
    ambiguous_phrase_execs(ck, rng, "c02")
    ck.validate()
    ck.require_outcomes(["DecodeX:3", "DecodeX:0", "Load:3"])
    ck.exhaustive = not quick
    ck.assumptions += ["the field lemmas are exhaustive over GF(2048) x 16 positions x 120 position pairs; "
                       "gf_elem_mul2 / gf_poly_eval are observed directly (static inline in src/gf.h) and again through the public API"]


# ----------------------------------------------------------------------------------------------- C03
def unit_seed(k):
    sec, bday, feats = bytearray(19), 0, 0
    if k < 144:
        sec[k // 8] = 1 << (7 - k % 8)
    elif k < 150:
        sec[18] = 1 << (149 - k)
    elif k < 160:
        bday = 1 << (9 - (k - 150))
    else:
        feats = 1 << (4 - (k - 160))
    return bytes(sec), bday, feats


def c03(ck):
    rng = Rng(ck.seed)
    quick = ck.tier == "quick"
    ck.model("Theorems.tla", "Theorems_layout.cfg")
    ck.model("Theorems.tla", "Theorems_roundtrip.cfg")
    ks = [k for k in range(165) if k != 161]          # 161 is the reserved feature bit: the library cannot hold it
    for k in ks:
        sec, bday, feats = unit_seed(k)
        for enc in (0, 16):
            s = Script()
            s.make_seed(0, sec, bday, feats | enc if not (feats & 16) else feats, rng, enable=7)
            langs = LANG_IDS if not quick else [LANG_IDS[k % 10], LANG_IDS[(k // 10 + 5) % 10]]
            for lid in langs:
                for coin in ([0, 2047] if quick else [0, 1, 1024, 2047]):
                    s.add("encode", 0, lid, coin, 1)
            s.add("store", 0, 1)
            ck.add(Exec("unit-%d-%s" % (k, "enc" if enc else "plain"), s.lines))
    pairs = [(i, j) for i in ks for j in ks if i < j]
    if quick:
        rng.shuffle(pairs)
        pairs = pairs[:600]
    for n, grp in enumerate(chunked(pairs, 40)):
        s = Script()
        for (i, j) in grp:
            a, b = unit_seed(i), unit_seed(j)
            sec = bytes(x ^ y for x, y in zip(a[0], b[0]))
            s.make_seed(0, sec, a[1] ^ b[1], a[2] ^ b[2], rng, enable=7)
            s.add("encode", 0, LANG_IDS[(i + j) % 10], rng.choice(COINS_BOUNDARY), 1)
            s.add("free", 0)
        ck.add(Exec("pairs-%d" % n, s.lines))
    # far from linear: chunk values at their extremes, and plain random seeds
    dense = chunk_boundary_seeds(rng) + [(rand_secret(rng), rng.below(1024), rng.choice([0, 5, 16, 21])) for _ in range(300 if quick else 6000)]
    dense.append((bytes([255] * 18 + [63]), 1023, 23))
    for n, grp in enumerate(chunked(dense, 30)):
        s = Script()
        for sec, bday, feats in grp:
            s.make_seed(0, sec, bday, feats & ~8, rng, enable=7)
            s.add("encode", 0, LANG_IDS[(n + len(s.lines)) % 10], rng.choice(COINS_BOUNDARY), 1)
            s.add("free", 0)
        ck.add(Exec("dense-%d" % n, s.lines))
    # every word of every list, as the encoder prints it (the word data is part of the published encoding)
    for lid in LANG_IDS:
        order = list(range(2048))
        rng.shuffle(order)
        slots = [1] + list(range(3, 16))
        for part, grp in enumerate(chunked(order, 14 * 40)):
            s = Script()
            for ws in chunked(grp, 14):
                w = [0] + [rng.below(2048) for _ in range(15)]
                for p_, v in zip(slots, ws):
                    w[p_] = v
                w[2] &= ~1
                w = codec.fix_check(w)
                seed_script(s, 0, w, rng)
                s.add("encode", 0, lid, 0, 1)
                s.add("free", 0)
            ck.add(Exec("every-word-printed-%s-%d" % (lid, part), s.lines))
    # ... and whatever the library's own state is at the time: the enabled features may have changed since the seed
    # was made, the dependencies may have been injected again, the allocator may be refusing
    for n in range(24 if quick else 300):
        s = Script()
        f = rng.choice([1, 2, 4, 5, 7, 3, 6, 21, 17])
        s.make_seed(0, rand_secret(rng), rng.below(1024), f, rng, enable=7)
        lid, coin = rng.choice(LANG_IDS), rng.choice(COINS_BOUNDARY)
        s.add("encode", 0, lid, coin, 1)
        for m in (0, rng.below(8), 7 & ~f):
            s.add("enable", m)
            s.add("encode", 0, lid, coin, 2)
            s.add("encode", 0, rng.choice(LANG_IDS), coin, 2)
        s.add("inject", rng.choice(["BBBBBBBB", "ABCABCAB"]))
        s.add("encode", 0, lid, coin, 2)
        s.add("env", "fail=1")
        s.add("encode", 0, lid, coin, 2)
        s.add("env", "fail=0")
        ck.add(Exec("library-state-%d" % n, s.lines))
    # pure function of (secret, birthday, features, coin, language): however the seed object came about
    for n in range(30 if quick else 400):
        s = Script()
        f, m = feature_choices(rng)
        s.make_seed(0, rand_secret(rng), rng.below(1024), f, rng, enable=7)
        lid, coin = rng.choice(LANG_IDS), rng.below(2048)
        s.add("store", 0, 1)
        s.add("load", 1, 1)                       # the same seed, loaded
        s.add("encode", 0, lid, coin, 1)
        s.add("decodex", 1, coin, lid, 2)         # the same seed, decoded
        for h in (0, 1, 2):
            pw = s.string(rng.choice([b"a", b"bb", "ñandú".encode()]))
            for _ in range(1 + rng.below(2)):
                s.add("env", "mask=" + hx(biased_mask(rng, rng.below(12))))
                s.add("crypt", h, pw)
                if rng.chance(1, 2):
                    s.add("encode", h, rng.choice(LANG_IDS), rng.choice([coin, 0]), s.sreg())
            s.add("encode", h, lid, coin, s.sreg())
            s.add("encode", h, rng.choice(LANG_IDS), coin, s.sreg())
        ck.add(Exec("object-history-%d" % n, s.lines))
    # histories must not matter: the same seed reached by load and by decode encodes identically
    for n in range(10 if quick else 100):
        s = Script()
        f, m = feature_choices(rng)
        s.make_seed(0, rand_secret(rng), rng.below(1024), f, rng, enable=7)
        s.add("store", 0, 1)
        s.add("load", 1, 1)
        lid, coin = rng.choice(LANG_IDS), rng.below(2048)
        s.add("encode", 0, lid, coin, 1)
        s.add("encode", 1, lid, coin, 2)
        s.add("decodex", 1, coin, lid, 2)
        s.add("encode", 2, rng.choice(LANG_IDS), coin, 3)
        ck.add(Exec("history-%d" % n, s.lines))
    boundary_phrase_execs(ck, rng, "c03")
    ck.validate()
    ck.exhaustive = not quick
    ck.assumptions += ["the 165 unit seeds and their pairs determine a bit-linear packing; linearity is TLC-checked on the specification "
                       "and every unit seed (except the reserved feature bit, which the library refuses to hold) is encoded by the implementation"]


# ----------------------------------------------------------------------------------------------- C04
KEY_SIZES = [0, 1, 16, 32, 33, 64, 1000]
KEY_SIZES_ODD = [2, 7, 15, 17, 31, 63, 65, 255, 256, 257, 999, 1001, 4096, 65535, 65536, 2 ** 31, 2 ** 32 - 1, 2 ** 32, 2 ** 32 + 32, 2 ** 48 + 5, 2 ** 64 - 1]


def c04(ck):
    rng = Rng(ck.seed)
    quick = ck.tier == "quick"
    ck.model("Theorems.tla", "Theorems_kdf.cfg")
    for n in range(24 if quick else 4000):
        s = Script()
        f, m = feature_choices(rng)
        bday = rng.choice(MONTHS_BOUNDARY + [600, 777]) if n % 2 else rng.below(1024)
        s.make_seed(0, rand_secret(rng) if n > 3 else gen.boundary_secrets(rng, 0)[150 + n % 8], bday, f, rng, enable=7)
        for size in KEY_SIZES + [rng.choice(KEY_SIZES_ODD), rng.choice(KEY_SIZES_ODD), 1 + rng.below(200)]:
            s.add("env", "mask=" + hx(rng.bytes(64)))
            s.add("keygen", 0, rng.choice(COINS_BOUNDARY) if size % 2 else rng.below(2048), size)
        # the same seed by other paths
        lid = rng.choice(LANG_IDS)
        coin = rng.below(2048)
        s.add("encode", 0, lid, coin, 1)
        s.add("decodex", 1, coin, lid, 1)
        s.add("keygen", 1, coin, 32)
        s.add("store", 0, 1)
        s.add("load", 1, 2)
        s.add("keygen", 2, coin, 32)
        s.add("env", "mask=" + hx(rng.bytes(32)))
        pw = s.string(b"hunter2")
        s.add("crypt", 2, pw)
        s.add("keygen", 2, coin, 32)
        s.add("crypt", 2, pw)
        s.add("keygen", 2, coin, 32)
        # the caller's key buffer is the caller's wherever it starts (odd addresses, sizes that are and are not
        # multiples of a word)
        for off in (1, 2, 3, 5, 8 + rng.below(8)):
            s.add("env", "mask=" + hx(rng.bytes(64)))
            s.add("keygen", 2, coin, rng.choice([32, 16, 64, 4, 33, 20]), "off=%d" % off)
        ck.add(Exec("keygen-%d" % n, s.lines))
    ck.validate()
    # the inputs are the call's own: derived on the caller's side of the library, not in state shared between calls.
    # Threads deriving keys from their own seeds at the same time, with the library's static data write-protected:
    # every KDF call of every thread is judged as above, and a store into library data is a fault
    scripts = []
    for t in range(3 if quick else 12):
        s = Script()
        for k in range(6 if quick else 40):
            s.add("env", "rand=" + hx(rand_secret(rng)), "time=%d" % (EPOCH + rng.below(1024) * STEP + 9))
            s.add("create", 0, rng.below(8))
            for _ in range(4):
                s.add("keygen", 0, rng.choice(COINS_BOUNDARY + [rng.below(2048)]), rng.choice([16, 32, 64]))
            s.add("free", 0)
        scripts.append(s.lines)
    for rn, variant in enumerate(["mt_so"] if quick else ["mt_so", "mt_tsan"]):
        mt_round(ck, rn, variant, ["inject AAAAAAAA", "enable 7"], scripts)


# ----------------------------------------------------------------------------------------------- C05
def c05(ck):
    rng = Rng(ck.seed)
    quick = ck.tier == "quick"
    ck.model("Theorems.tla", "Theorems_coinpairs.cfg")
    if not quick:
        ck.model("Theorems.tla", "Theorems_coinpairsfull.cfg", timeout=3000)
    # a phrase made for coin A is a checksum error for coin B whatever else is wrong with it for this library
    # configuration: a seed whose feature is not enabled any more, an allocator that would refuse
    for n in range(12 if quick else 120):
        s = Script()
        f = rng.choice([1, 2, 4, 5, 3, 6, 7, 17, 21])
        s.make_seed(0, rand_secret(rng), rng.below(1024), f, rng, enable=7)
        lid, a = rng.choice(LANG_IDS), rng.choice(COINS_BOUNDARY + [rng.below(2048)])
        s.add("encode", 0, lid, a, 1)
        s.add("enable", rng.choice([0, 7 & ~f, (7 & ~f) | 8]))
        for b in [a ^ 1, a ^ 1024, (a + 1) % 2048, rng.below(2048), a]:
            s.add("decodex", 1, b, lid, 1)
            s.add("free", 1)
            s.add("decode", 1, b, 1)
            s.add("free", 1)
        s.add("env", "fail=1")
        for b in [a ^ 2, a]:
            s.add("decodex", 1, b, lid, 1)
            s.add("free", 1)
        s.add("env", "fail=0")
        ck.add(Exec("disabled-feature-%d" % n, s.lines))
    # the coin belongs to the phrase, not to the seed object: a seed restored from a phrase for coin A, encoded for B,
    # gives B's phrase (decodes for B, is a checksum error for A)
    for n in range(10 if quick else 100):
        s = Script()
        s.make_seed(0, rand_secret(rng), rng.below(1024), rng.choice([0, 0, 5, 16]), rng, enable=7)
        lid, a = rng.choice(LANG_IDS), rng.choice(COINS_BOUNDARY + [rng.below(2048)])
        b = rng.choice([a ^ 1, a ^ 1024, (a + 1) % 2048, rng.below(2048)])
        s.add("encode", 0, lid, a, 1)
        # (the clock means nothing to a decoder: it may read before, at or after the seed's birthday)
        s.add("env", "time=%d" % rng.choice([EPOCH, EPOCH + 2 * STEP, 0, EPOCH + 1023 * STEP]), "libctime=%d" % EPOCH)
        for how in ("decodex", "decode"):
            if how == "decodex":
                s.add("decodex", 1, a, lid, 1)
            else:
                s.add("decode", 1, a, 1)
            lid2 = rng.choice(LANG_IDS)
            s.add("encode", 1, lid2, b, 2)
            s.add("decodex", 2, b, lid2, 2)
            s.add("decodex", 2, a, lid2, 3)
            s.add("store", 1, 1)
            s.add("load", 1, 4)
            s.add("encode", 4, lid2, b, 3)
            for h in (1, 2, 3, 4):
                s.add("free", h)
        ck.add(Exec("coin-not-bound-%d" % n, s.lines))
    step = 8 if quick else 1
    for lid in (["en", "ko"] if quick else LANG_IDS):
        # row: one A, every B
        a = rng.below(2048)
        f, m = feature_choices(rng)
        for part, bs in enumerate(chunked(list(range(rng.below(step), 2048, step)) + [a], 300)):
            s = Script()
            s.make_seed(0, rand_secret(rng), rng.below(1024), f, rng, enable=7)
            s.add("encode", 0, lid, a, 1)
            for b in bs:
                s.add("decodex", 1, b, lid, 1)
                s.add("free", 1)
            ck.add(Exec("row-%s-%d" % (lid, part), s.lines))
        # column: every A, one B
        b = rng.below(2048)
        for part, as_ in enumerate(chunked(list(range(rng.below(step), 2048, step)) + [b], 200)):
            s = Script()
            s.make_seed(0, rand_secret(rng), rng.below(1024), f, rng, enable=7)
            for a2 in as_:
                s.add("encode", 0, lid, a2, 1)
                s.add("decodex", 1, b, lid, 1)
                s.add("free", 1)
            ck.add(Exec("col-%s-%d" % (lid, part), s.lines))
    # seeds whose check word takes boundary values (0: "no checksum"?, 1, 1023, 1024, 2047)
    for cw in (0, 1, 1023, 1024, 2047):
        s = Script()
        a = rng.choice([0, 0, rng.below(2048)])
        sec, bday, f = seed_with_check_word(rng, cw, a)
        s.make_seed(0, sec, bday, f, rng, enable=7)
        lid = rng.choice(["en", "en", "es", "jp"])
        s.add("encode", 0, lid, a, 1)
        for b in sorted({a, a ^ 1, a ^ 2, a ^ 1024, a ^ 2047, 0, 1, 2047} | {rng.below(2048) for _ in range(12 if quick else 200)}):
            s.add("decodex", 1, b, lid, 1)
            s.add("free", 1)
            s.add("decode", 1, b, 1)
            s.add("free", 1)
        ck.add(Exec("checkword-%d" % cw, s.lines))
    for lid in LANG_IDS:
        s = Script()
        f, m = feature_choices(rng)
        s.make_seed(0, rand_secret(rng), rng.below(1024), f, rng, enable=7)
        for _ in range(24 if quick else 200):
            a, b = rng.choice(COINS_BOUNDARY + [rng.below(2048)]), rng.choice(COINS_BOUNDARY + [rng.below(2048)])
            s.add("encode", 0, lid, a, 1)
            s.add("decodex", 1, b, lid, 1)
            s.add("free", 1)
            s.add("decode", 1, b, 1)
            s.add("free", 1)
        ck.add(Exec("pairs-%s" % lid, s.lines))
    boundary_phrase_execs(ck, rng, "c05")
    ambiguous_phrase_execs(ck, rng, "c05")
    ck.validate()
    ck.require_outcomes(["DecodeX:3", "DecodeX:0", "Decode:3"])
    ck.exhaustive = not quick


# ----------------------------------------------------------------------------------------------- C06
def c06(ck):
    rng = Rng(ck.seed)
    quick = ck.tier == "quick"
    ck.model("Theorems.tla", "Theorems_storage.cfg")
    bases = [(bytes([255] * 18 + [63]), 682, 21), (unit_seed(3)[0], 1, 0)]
    if not quick:
        bases += [(rand_secret(rng), rng.below(1024), 16), (rand_secret(rng), rng.below(1024), 7)]
    stride = 16 if quick else 1
    n = 0
    for bi, (sec, bday, feats) in enumerate(bases):
        img = codec.image(sec, bday, feats)
        bufs = []
        for pos in range(8):
            for v in range(256):
                b = bytearray(img); b[pos] = v; bufs.append(bytes(b))
        off = rng.below(stride)
        for v in list(range(off, 65536, stride)) + [0, 0x7fff, 0x8000, 0xffff, 0x4000 | bday, 0x2000 | bday]:
            b = bytearray(img); b[8] = v & 255; b[9] = v >> 8; bufs.append(bytes(b))
            b = bytearray(img); b[30] = v & 255; b[31] = v >> 8; bufs.append(bytes(b))
        for v in range(256):
            b = bytearray(img); b[28] = v; bufs.append(bytes(b))
            b = bytearray(img); b[29] = v; bufs.append(bytes(b))
        # non-canonical in one field AND carrying the check value that matches their content
        for v in (0x40, 0x80, 0xC0, 0xFF):
            s2 = bytearray(sec); s2[18] = (s2[18] & 63) | (v & 0xC0)
            chk = codec.words_of(bytes(s2[:18]) + bytes([s2[18] & 63]), bday, feats)[0]
            bufs.append(codec.image(bytes(s2), bday, feats, chk))
        # the two 16-bit fields are little-endian: the same image with either or both written the other way round
        for sw in ((8,), (30,), (8, 30)):
            b = bytearray(img)
            for q in sw:
                b[q], b[q + 1] = b[q + 1], b[q]
            bufs.append(bytes(b))
        for _ in range(40 if quick else 400):
            b = bytearray(codec.image(rand_secret(rng), rng.below(1024), rng.choice([0, 5, 16, 21])))
            for q in rng.choice([(8,), (30,), (8, 30)]):
                b[q], b[q + 1] = b[q + 1], b[q]
            bufs.append(bytes(b))
        for f in range(32):     # every feature value, with matching and with off-by-one check value
            chk = codec.words_of(sec, bday, f)[0]
            bufs.append(codec.image(sec, bday, f, chk))
            bufs.append(codec.image(sec, bday, f, chk ^ 1))
        # every PAIR of single deviations (two fields wrong at once), with the check value as stored and recomputed
        devs = [(9, 0x80, "x"), (28, 0x40, "x"), (28, 0x80, "x"), (28, 0xC0, "x"), (29, 0x01, "x"), (29, 0x80, "x"), (29, 0xFF, "x"),
                (31, 0x80, "x"), (31, 0x40, "x"), (31, 0x20, "x"), (31, 0x10, "x"), (31, 0x08, "x"), (0, 0x20, "x"), (7, 0x01, "x"),
                (9, 0x20, "x"), (9, 0x40, "x"), (30, 0x01, "x"), (12, 0x10, "x")]
        for i in range(len(devs)):
            for j in range(i + 1, len(devs)):
                b = bytearray(img)
                for pos, bits, how in (devs[i], devs[j]):
                    b[pos] ^= bits
                bufs.append(bytes(b))
                # ... and with the check value recomputed for the content the loader would see
                v = b[8] | (b[9] << 8)
                s2 = bytes(b[10:28]) + bytes([b[28] & 63])
                chk = codec.words_of(s2, v & 1023, (v >> 10) & 31)[0]
                b2 = bytearray(b)
                b2[30] = chk & 255
                b2[31] = (b[31] & 0xF8) | (chk >> 8)
                bufs.append(bytes(b2))
        for _ in range(200 if quick else 3000):     # multi-bit mutations
            b = bytearray(img)
            for _ in range(2 + rng.below(4)):
                b[rng.below(32)] ^= 1 << rng.below(8)
            bufs.append(bytes(b))
        for _ in range(100 if quick else 2000):
            bufs.append(rng.bytes(32))
        for grp in chunked(bufs, 400):
            s = Script()
            s.add("enable", rng.choice([0, 5, 7, 7]))
            for b in grp:
                r = s.buf(b)
                s.add("load", r, 1)
                s.add("store", 1, s.breg())
                s.add("free", 1)
            ck.add(Exec("load-%d-%d" % (bi, n), s.lines))
            n += 1
    # what is stored is the seed as it is NOW: loaded (or decoded, or created), then encrypted once, twice, three times,
    # each time stored and loaded again
    for n in range(10 if quick else 150):
        s = Script()
        s.make_seed(0, rand_secret(rng), rng.below(1024), rng.choice([0, 5, 16, 21]), rng, enable=7)
        s.add("store", 0, 1)
        s.add("load", 1, 1)
        s.add("encode", 0, "en", 0, 1)
        s.add("decodex", 1, 0, "en", 2)
        pw = s.string(rng.choice([b"pw", b"", "pässwörd".encode()]))
        for h in (1, 2, 0):
            for k in range(1 + rng.below(3)):
                s.add("env", "mask=" + hx(biased_mask(rng, n + k)))
                s.add("crypt", h, pw)
                s.add("store", h, 2)
                s.add("load", 2, 3)
                s.add("store", 3, 3)
                s.add("free", 3)
        ck.add(Exec("store-after-crypt-%d" % n, s.lines))
    # spec -> code: TLC-generated images for every feature value (valid and with the check value off by one)
    vecs = spec_vectors(ck)
    ck.extra["tlc_generated_vectors"] = len(vecs)
    spec_vector_execs(ck, rng, vecs, "specvec", masks=(0, 7) if quick else (0, 5, 7))
    # round trip of structured seeds
    for grp in chunked([k for k in range(165) if k != 161], 30):
        s = Script()
        for k in grp:
            sec, bday, feats = unit_seed(k)
            s.make_seed(0, sec, bday, feats, rng, enable=7)
            s.add("store", 0, 1)
            s.add("load", 1, 1)
            s.add("free", 1)
            s.add("free", 0)
        ck.add(Exec("roundtrip-%d" % grp[0], s.lines))
    # every seed the library can hold: encrypted ones too (all values of the two dropped mask bits), user features
    for n in range(8 if quick else 100):
        s = Script()
        for k in range(8):
            s.make_seed(0, rand_secret(rng), rng.below(1024), rng.choice([0, 5, 7]), rng, enable=7)
            for _ in range(1 + rng.below(3)):
                s.add("env", "mask=" + hx(biased_mask(rng, n * 8 + k)))
                s.add("crypt", 0, s.string(b"pw%d" % k))
                s.add("store", 0, 1)
                s.add("load", 1, 1)
                s.add("store", 1, 2)
                s.add("free", 1)
            s.add("free", 0)
        ck.add(Exec("roundtrip-crypted-%d" % n, s.lines))
    ck.validate()
    ck.require_outcomes(["Load:0", "Load:3", "Load:4", "Load:5", "Store:-"])
    ck.exhaustive = not quick
    ck.assumptions += ["acceptance over all 2^256 buffers is explored by the field-wise exhaustive neighbourhood of valid images "
                       "(every value of every non-secret field), constructed vectors that are non-canonical yet carry a matching check value, "
                       "multi-bit mutations and random buffers"]


# ----------------------------------------------------------------------------------------------- C07
def c07(ck):
    rng = Rng(ck.seed)
    quick = ck.tier == "quick"
    strsize = header_strsize(ck)
    ck.model("TheoremsLists.tla", lists_cfg(ck, strsize))
    # direct observation of the registry and of every word table; every word through the search
    ck.add(Exec("registry", ["numlangs"] + ["listwords " + lid for lid in LANG_IDS]))
    for lid in LANG_IDS:
        L = codec.lang(lid)
        for part, grp in enumerate(chunked(list(range(2048)), 512)):
            ck.add(Exec("find-%s-%d" % (lid, part), ["find %s %s" % (lid, hx(L["wb"][i])) for i in grp]))
    # "every word decodes to its own index" for both signednesses of plain char (the search order of the
    # accented lists is where it could matter): the same lookups in the -funsigned-char build, and the debug
    # self-test there
    for lid in LANG_IDS:
        L = codec.lang(lid)
        if quick and not L["accents"] and lid not in ("jp", "zh_s"):
            continue
        ck.add(Exec("uchar-find-%s" % lid, ["find %s %s" % (lid, hx(L["wb"][i])) for i in range(2048)], variant="uchar"))
    ck.add(Exec("selftest-uchar-dbg", ["inject AAAAAAAA", "numlangs"], variant="uchar_dbg"))
    # the registry is frozen whatever the process environment says
    for loc in ("ja_JP.UTF-8", "ko_KR.UTF-8", "es_ES.UTF-8", "fr_FR.UTF-8", "it_IT.UTF-8", "cs_CZ.UTF-8", "pt_BR.UTF-8", "zh_CN.UTF-8", "zh_TW.UTF-8", "en_US.UTF-8", "de_DE"):
        s = Script()
        s.add("env", "langenv=" + loc)
        s.add("numlangs")
        s.make_seed(0, rand_secret(rng), rng.below(1024), 0, rng, enable=0)
        for lid in LANG_IDS:
            r = s.sreg()
            s.add("encode", 0, lid, 0, r)
            s.add("decode", r, 0, 1)
            s.add("decodex", r, 0, lid, 2)
            s.add("free", 1)
            s.add("free", 2)
        s.add("numlangs")
        ck.add(Exec("locale-" + loc.split(".")[0], s.lines))
    # the debug self-test of the library, run with the real normaliser (sortedness, NFKD, separators)
    ck.add(Exec("selftest-dbg", ["inject AAAAAAAA", "numlangs"], variant="dbg"))
    # through the public API: every index at every phrase position
    #   word 2: all coins; words 7-16 and 1: ten secret bits + birthday bit; words 3-6: feature bits
    for lid in LANG_IDS:
        step = 8 if quick else 1
        off = rng.below(step)
        sec = rand_secret(rng)
        for part, coins in enumerate(chunked(list(range(off, 2048, step)), 256)):
            s = Script()
            s.make_seed(0, sec, 555, 0, rng, enable=7)
            for coin in coins:
                s.add("encode", 0, lid, coin, 1)
                s.add("decodex", 1, coin, lid, 1)
                s.add("free", 1)
            ck.add(Exec("coin-sweep-%s-%d" % (lid, part), s.lines))
        # sweep of every index over the data words: word p takes value v for all v (p = 3..16 by seed choice)
        vals = list(range(off, 2048, step * (4 if quick else 1)))
        for part, grp in enumerate(chunked(vals, 128)):
            s = Script()
            for v in grp:
                w = [0] + [v if (p >= 3 or v % 2 == 0) else v ^ 1 for p in range(1, 16)]
                w[2] &= ~1
                w = codec.fix_check(w)
                seed_script(s, 0, w, rng)
                s.add("encode", 0, lid, 0, 1)
                s.add("decodex", 1, 0, lid, 1)
                s.add("free", 1)
                s.add("free", 0)
            ck.add(Exec("index-sweep-%s-%d" % (lid, part), s.lines))
    ambiguous_phrase_execs(ck, rng, "c07")
    ck.validate()
    ck.exhaustive = True
    ck.assumptions += ["golden snapshot /verif/golden/lists.json (SHA-256 verified by setup) is the publication at the pinned release",
                       "clause 'no word is a prefix of another' is decided as: no word of four or more letters is a prefix of another, "
                       "and every acceptable token resolves to exactly one word (the literal reading is false for BIP-39 en/es three-letter words such as act/action)"]


# ----------------------------------------------------------------------------------------------- C08
def chars_of(word_bytes):
    """NFKD word -> list of (letter, marks) as str."""
    import unicodedata
    out = []
    for ch in word_bytes.decode("utf-8"):
        if unicodedata.combining(ch) and out:
            out[-1][1] += ch
        else:
            out.append([ch, ""])
    return out


def variants_of(chars, n, rng=None, all_subsets=True):
    """Tokens for the first n characters: every subset of accents kept or dropped (decomposed bytes)."""
    pref = chars[:n]
    acc = [i for i, c in enumerate(pref) if c[1]]
    out = []
    for m in range(1 << len(acc)):
        keep = {acc[i] for i in range(len(acc)) if (m >> i) & 1}
        out.append("".join(c[0] + (c[1] if i in keep else "") for i, c in enumerate(pref)).encode("utf-8"))
    return out


def c08(ck):
    import unicodedata
    rng = Rng(ck.seed)
    quick = ck.tier == "quick"
    strsize = header_strsize(ck)
    ck.model("TheoremsLists.tla", lists_cfg(ck, strsize))
    toks = {lid: [] for lid in LANG_IDS}
    for lid in LANG_IDS:
        L = codec.lang(lid)
        for i in range(2048):
            w = L["wb"][i]
            cs = chars_of(w)
            accented = any(c[1] for c in cs)
            if L["prefix"]:
                if quick and not accented and (i + ck.seed) % 8:
                    continue
                t = set()
                for n in range(1, len(cs) + 1):
                    t.update(variants_of(cs, n))
                    base = "".join(c[0] for c in cs[:n]).encode()
                    t.add(base + b"x")                       # continues with a letter the word may not have
                    t.add(base + b"\xcc\x81")                # an accent the word does not have there
                t.add(w + b"a")
                t.add(w + w[-1:])
                if (i + ck.seed) % 4 == 0 or accented:          # the rule knows no letter case
                    t.add(w[:1].upper() + w[1:])
                    t.add(w.upper())
                    t.add(w[:1].upper() + "".join(c0[0] for c0 in cs[1:4]).encode())
                if len(cs) > 4:
                    t.add("".join(c[0] + c[1] for c in cs[:3]).encode() + cs[4][0].encode())   # skips a letter
                # only accents are ignored, and only where the list has them: digits, punctuation, blanks' cousins inside or
                # around a word make it another token
                if (i + ck.seed) % (4 if quick else 1) == 0:
                    k = 1 + (i % max(1, len(w) - 1))
                    t.update({w + b"1", w + b".", b"7" + w, w[:k] + b"-" + w[k:], w[:k] + b"'" + w[k:], w + b"!", b"(" + w + b")", w[:k] + b"_" + w[k:]})
                toks[lid] += sorted(t)
            else:
                if quick and (i + ck.seed) % 8:
                    continue
                t = {w, w + "あ".encode(), w + w[-3:]}
                if lid == "jp":
                    # the same word in the other syllabary is another token (hiragana U+3041..3096 <-> katakana U+30A1..30F6)
                    t.add("".join(chr(ord(c) + 0x60) if 0x3041 <= ord(c) <= 0x3096 else c for c in w.decode("utf-8")).encode())
                for n in range(1, len(cs)):
                    t.add("".join(c[0] + c[1] for c in cs[:n]).encode())
                toks[lid] += sorted(t)
    for lid in LANG_IDS:
        for part, grp in enumerate(chunked(toks[lid], 2000)):
            ck.add(Exec("tokens-%s-%d" % (lid, part), ["find %s %s" % (lid, hx(t)) for t in grp if 0 < len(t) < 200]))
    # mass sweep: pseudo-random tokens over each list's own characters; the library logs every token it
    # accepts and the specification decides whether the published rule allows it (a lookup accelerator with
    # false positives - hash index, filter - accepts tokens the rule rejects)
    for lid in LANG_IDS:
        L = codec.lang(lid)
        wide = max(len(chars_of(w)) for w in L["wb"]) <= 2      # lists of one- or two-character words
        if wide:
            parts, count, lo, hi = (8 if quick else 32), (1 << 18 if quick else 1 << 20), 2, 4
        else:
            parts, count, lo, hi = 1, (1 << 14 if quick else 1 << 17), 1, 9
        for part in range(parts):
            ck.add(Exec("sweep-%s-%d" % (lid, part), ["findsweep %s %d %d %d %d" % (lid, ck.seed * 1000 + part, count, lo, hi)]))
    # the other syllabary is another spelling, not the same word: whole Japanese phrases with one word in katakana
    s = Script()
    s.add("enable", 0)
    for n in range(8 if quick else 100):
        idx = rand_idx(rng)
        words = [codec.lang("jp")["wcb"][i].decode("utf-8") for i in idx]
        p_ = rng.below(16)
        words[p_] = "".join(chr(ord(c) + 0x60) if 0x3041 <= ord(c) <= 0x3096 else c for c in words[p_])
        r = s.string("\u3000".join(words).encode("utf-8"))
        s.add("decodex", r, 0, "jp", 1)
        s.add("free", 1)
        s.add("decode", r, 0, 1)
        s.add("free", 1)
    ck.add(Exec("katakana-respelling", s.lines))
    # whole phrases through the real normaliser: an independent variant per position
    for lid in LANG_IDS:
        L = codec.lang(lid)
        for n in range(12 if quick else 300):
            idx = rand_idx(rng, features=rng.choice([0, 16]))
            parts, legal = [], True
            bad_pos = rng.below(16) if n % 3 == 2 else -1
            for p, i in enumerate(idx):
                cs = chars_of(L["wb"][i])
                if L["prefix"]:
                    k = len(cs) if (len(cs) <= 4 or rng.chance(1, 3)) else 4 + rng.below(len(cs) - 3)
                    tok = rng.choice(variants_of(cs, k)).decode("utf-8")
                    if p == bad_pos:
                        how = rng.below(3)
                        if how == 0 and len(cs) > 3:
                            tok = "".join(c[0] for c in cs[:3])
                        elif how == 1:
                            tok = tok + "q"
                        else:
                            tok = "".join(c[0] for c in cs) + "ing"
                else:
                    tok = L["wb"][i].decode("utf-8")
                    if p == bad_pos:
                        tok = tok[:-1] if len(tok) > 1 else tok + tok
                parts.append(unicodedata.normalize(rng.choice(["NFC", "NFD"]), tok))
            sep = "　" if (lid == "jp" and rng.chance(1, 2)) else " "
            s = Script()
            s.add("enable", 7)
            r = s.string(sep.join(parts).encode("utf-8"))
            s.add("decodex", r, 0, lid, 1)
            s.add("decode", r, 0, 2)
            ck.add(Exec("phrase-%s-%d" % (lid, n), s.lines))
    ck.validate()
    ck.exhaustive = not quick
    ck.assumptions += ["tokens are given to the internal search already decomposed; whole phrases go through utf8proc NFKD in composed and decomposed spelling"]
    # vacuity guard of the sweep: it ran (or the tree does not offer the internal lookup any more, which the evidence says)
    if not getattr(ck, "swept", 0) and "word-lookup-sweep" not in getattr(ck, "unavailable", set()) and not ck.violations:
        ck.infra.append("vacuous run: the mass sweep of the word lookup did not run")


def spec_vectors(ck):
    """Vectors generated by TLC from the specification (Theorems family "vectors"): images and word indices of
    seeds with every value of the five feature bits, valid and with the check value off by one."""
    import json
    import re
    res = ck.model("Theorems.tla", "Theorems_vectors.cfg")
    out = []
    for m in re.finditer(r'<<\s*"VEC",\s*"((?:[^"\\]|\\.)*)"\s*>>', res["out"], re.S):
        try:
            out.append(json.loads(json.loads('"' + re.sub(r"\s*\n\s*", "", m.group(1)) + '"')))
        except ValueError:
            pass
    return out


def spec_vector_execs(ck, rng, vecs, name, masks=range(8)):
    """The library's verdict on the specification's vectors, at every entry point, under the given masks."""
    for m in masks:
        for part, grp in enumerate(chunked(vecs, 24)):
            s = Script()
            s.add("enable", m)
            for v in grp:
                s.add("load", s.buf(bytes(v["img"])), 1)
                s.add("store", 1, s.breg())
                s.add("free", 1)
                for lid in ("en", rng.choice(LANG_IDS)):
                    r = s.string(codec.phrase(lid, v["words"]))
                    s.add("decodex", r, 0, lid, 1)
                    s.add("free", 1)
                    s.add("decode", r, 0, 1)
                    s.add("free", 1)
            ck.add(Exec("%s-m%d-%d" % (name, m, part), s.lines))


# ----------------------------------------------------------------------------------------------- C10
def c10(ck):
    rng = Rng(ck.seed)
    quick = ck.tier == "quick"
    ck.model("Theorems.tla", "Theorems_features.cfg")
    ck.model("PolyseedMC.tla", "PolyseedMC_quick.cfg" if quick else "PolyseedMC_thorough.cfg", heap="16g", timeout=3400)
    # spec -> code: the vectors TLC derives from the specification (the library cannot manufacture the reserved ones)
    vecs = spec_vectors(ck)
    ck.extra["tlc_generated_vectors"] = len(vecs)
    spec_vector_execs(ck, rng, vecs, "specvec", masks=(0, 5, 7) if quick else range(8))
    for rep in range(1 if quick else 12):
        sec = rand_secret(rng)
        for m in range(8):
            arg = m if m % 2 == 0 else m + rng.choice([8, 0xFFFFFFF8, 64])
            for grp_no, fs in enumerate(chunked(list(range(32)), 8)):
                s = Script()
                # enabling is not cumulative: the last call wins
                for prev in [rng.below(8) for _ in range(rng.below(3))]:
                    s.add("enable", prev)
                s.add("enable", arg)
                # only the enabling call changes the mask: injecting dependencies again (to swap the random
                # source, say) leaves it as configured
                if (grp_no + m + rep) % 3 == 0:
                    s.add("inject", rng.choice(["AAAAAAAA", "BBBBBBBB", "ABCABCAB"]))
                for f in fs:
                    bday = rng.below(1024)
                    idx = codec.words_of(sec, bday, f, 0)
                    b = s.buf(codec.image(sec, bday, f))
                    s.add("load", b, 1)
                    s.add("feat", 1, rng.choice([7, 1, 2, 4, 15, 0xFFFFFFFF, 8, 16, 24]))
                    s.add("isenc", 1)
                    s.add("free", 1)
                    r = s.string(codec.phrase("en", idx))
                    s.add("decode", r, 0, 1)
                    s.add("decodex", r, 0, "en", 2)
                    r2 = s.string(codec.phrase("jp", idx))
                    s.add("decodex", r2, 0, "jp", 3)
                    # accepted ones survive phrase, storage and encryption round trips
                    s.add("encode", 1, "es", 3, s.sreg())
                    s.add("decodex", s.nstr, 3, "es", 4)
                    s.add("env", "mask=" + hx(rng.bytes(32)))
                    s.add("crypt", 2, s.string(b"pw"))
                    s.add("store", 2, s.breg())
                    s.add("load", s.nbuf, 5)
                    for h in (1, 2, 3, 4, 5):
                        s.add("free", h)
                ck.add(Exec("gate-r%d-m%d-%d" % (rep, m, grp_no), s.lines))
            s = Script()
            s.add("enable", arg)
            if m % 2:
                s.add("inject", "BBBBBBBB")
            for u in list(range(16)) + [0xFFFFFFF8 + m, 0x80000000 | m, 24 + (m ^ 5)]:
                s.add("env", "rand=" + hx(rand_secret(rng)))
                s.add("create", 1, u)
                for q in (0, 1, 2, 4, 7, 15, 0xFFFFFFFF):
                    s.add("feat", 1, q)
                s.add("isenc", 1)
                s.add("free", 1)
            ck.add(Exec("create-r%d-m%d" % (rep, m), s.lines))
    # seeds that stay alive while the enabled mask changes: queries keep returning exactly the stored bits
    for n in range(6 if quick else 60):
        s = Script()
        s.add("enable", 7)
        for h in range(4):
            s.add("env", "rand=" + hx(rand_secret(rng)))
            s.add("create", h, rng.choice([5, 7, 1, 2, 4, 6, 3]))
        for m in [rng.below(8) for _ in range(5)] + [0, 7]:
            s.add("enable", m)
            for h in range(4):
                s.add("feat", h, rng.choice([7, 1, 2, 4, 3, 5, 6, 0xFFFFFFFF]))
                s.add("isenc", h)
            s.add("encode", rng.below(4), rng.choice(LANG_IDS), 0, 1)
            s.add("store", rng.below(4), 1)
        ck.add(Exec("live-across-enable-%d" % n, s.lines))
    ck.validate()
    ck.require_outcomes(["Create:4", "Create:0", "Load:4", "Load:0", "Decode:4", "Decode:0", "DecodeX:4", "DecodeX:0", "Enable:-", "Feature:-"])
    ck.exhaustive = True


# ----------------------------------------------------------------------------------------------- C11
def c11(ck):
    rng = Rng(ck.seed)
    quick = ck.tier == "quick"
    ck.model("Theorems.tla", "Theorems_birthday.cfg")
    clocks = []
    for k in range(1025):
        for d in (-1, 0, 1):
            clocks.append(EPOCH + k * STEP + d)
    clocks += [0, 1, EPOCH - 1, EPOCH, EPOCH + 1, 2 ** 32 - 1, 2 ** 32, 2 ** 32 + 1, 2 ** 63, 2 ** 64 - 2, 2 ** 64 - 1,
               EPOCH + 1024 * STEP - 1, 2 ** 31 - 1, 2 ** 31]
    for _ in range(300 if quick else 50000):
        clocks.append(rng.u64() if rng.chance(1, 2) else EPOCH + rng.below(1100 * STEP))
    for part, grp in enumerate(chunked(clocks, 128)):
        s = Script()
        libc = part % 5 == 4
        if libc:
            s.add("inject", "AAAAANAA")          # clock entry NULL: libc time() must be used
        for t in grp:
            # (a library that looks at the sub-second part of some libc clock gets the scheduled one)
            s.add("env", "rand=" + hx(rand_secret(rng)), ("libctime=%d" if libc else "time=%d") % t,
                  "libcnsec=%d" % rng.choice([0, 499999999, 500000000, 999999999]))
            s.add("create", 1, 0)
            s.add("bday", 1)
            s.add("free", 1)
        ck.add(Exec("clock-%d" % part, s.lines))
    # the birthday survives every transformation
    for n in range(40 if quick else 600):
        s = Script()
        t = rng.choice(clocks)
        s.add("enable", 7)
        s.add("env", "rand=" + hx(rand_secret(rng)), "time=%d" % t)
        s.add("create", 1, rng.below(8))
        lid, coin = rng.choice(LANG_IDS), rng.below(2048)
        s.add("encode", 1, lid, coin, 1)
        s.add("decodex", 1, coin, lid, 2)
        s.add("bday", 2)
        s.add("store", 2, 1)
        s.add("load", 1, 3)
        s.add("bday", 3)
        s.add("env", "mask=" + hx(rng.bytes(32)))
        pw = s.string(b"p")
        s.add("crypt", 3, pw)
        s.add("bday", 3)
        s.add("crypt", 3, pw)
        s.add("bday", 3)
        ck.add(Exec("survive-%d" % n, s.lines))
    ck.validate()
    ck.exhaustive = True
    ck.assumptions += ["the quantiser is monotone and piecewise constant: both sides of each of the 1024 month boundaries, the range ends and the special clocks decide all 2^64 values"]


# ----------------------------------------------------------------------------------------------- C12
def biased_mask(rng, k):
    m = bytearray(rng.bytes(32))
    if k % 6 == 0:
        m = bytearray(32)
    elif k % 6 == 1:
        m = bytearray([255] * 32)
    m[18] = (m[18] & 0x3F) | ((k % 4) << 6)       # all four values of the two dropped bits
    return bytes(m)


def c12(ck):
    import json
    rng = Rng(ck.seed)
    quick = ck.tier == "quick"
    ck.model("Theorems.tla", "Theorems_crypt.cfg")
    pool = json.load(open(os.path.join(codec.GOLDEN, "passwords.json")))["pool"]
    pws = [b"a" * 30, b"x" * 542, b"x" * 543, b"y" * 544, b"z" * 700, ("ü" * 100).encode(),
           # long non-ASCII passwords whose decomposed form still fits the buffer: nothing is cut off before normalisation
           ("密" * 70).encode(), ("é" * 91).encode(), ("パスワード" * 12).encode(), b"ascii-prefix-" * 10 + "ñ".encode() * 60, ("가" * 60).encode()]
    # the password reaches the KDF as given (NFKD changes nothing in ASCII): capitals, digits, punctuation, spaces
    pws += [b"Correct Horse Battery Staple", b"PIN-2024-XYZ", b"  lead and trail  ", b"Tab\tand\nnewline", b"hunter2\n", b"hunter2\r\n", b"\n", b"hunter2", b" ", b"\x7f\x01", b"MiXeD cAsE 0123456789 !\"#$%&'()*+,-./:;<=>?@[\\]^_`{|}~"]
    # (the special ones first: the quick tier gets through the first thirty)
    for p in pool:
        pws.append(bytes(p["nfc"]))
        pws.append(bytes(p["nfd"]))
    k = 0
    for n in range(30 if quick else 5000):
        s = Script()
        f = rng.choice([0, 5, 7, 2])
        sec = bytearray(rand_secret(rng))
        sec[18] = (sec[18] & 0x0F) | ((n % 4) << 4)
        s.make_seed(0, bytes(sec), rng.below(1024), f, rng, enable=7)
        pw1 = pws[n % len(pws)]
        pw2 = rng.choice(pws)
        for step in range(1 + rng.below(4)):
            s.add("env", "mask=" + hx(biased_mask(rng, k)))
            k += 1
            r = s.string(pw1 if step % 2 == 0 or rng.chance(1, 2) else pw2)
            # the operation has no way to report a failure, so it has none: whatever the allocator does
            # (the pinned code does not allocate here at all), the seed is toggled
            starved = rng.chance(1, 4)
            if starved:
                s.add("env", "fail=%d" % rng.choice([1, 1, 2]))
            s.add("crypt", 0, r)
            if starved:
                s.add("env", "fail=0")
            if rng.chance(1, 2):
                s.add("crypt", 0, r)            # same password, same mask: must restore bit for bit
                s.add("crypt", 0, r)
            s.add("isenc", 0)
            s.add("store", 0, 1)
            s.add("load", 1, 1)
            for lid in (rng.choice(LANG_IDS), rng.choice(LANG_IDS)):
                coin = rng.below(2048)
                s.add("encode", 0, lid, coin, 1)
                s.add("decodex", 1, coin, lid, 2)
                s.add("free", 2)
            s.add("free", 1)
        ck.add(Exec("crypt-%d" % n, s.lines))
    # canonically equivalent spellings give the same KDF password
    for i, p in enumerate(pool):
        s = Script()
        s.make_seed(0, rand_secret(rng), 100, 0, rng, enable=0)
        s.add("env", "mask=" + hx(biased_mask(rng, i)))
        s.add("crypt", 0, s.string(bytes(p["nfc"])))
        s.add("crypt", 0, s.string(bytes(p["nfd"])))
        s.add("isenc", 0)
        ck.add(Exec("spelling-%d" % i, s.lines))
    ck.validate()
    # the password, its normalised form and the mask are the call's own: threads encrypting their own seeds with their
    # own passwords at the same time, with the library's static data write-protected (and under ThreadSanitizer)
    scripts = []
    for t in range(3 if quick else 12):
        s = Script()
        for k in range(5 if quick else 40):
            s.add("env", "rand=" + hx(rand_secret(rng)), "time=%d" % (EPOCH + rng.below(1024) * STEP + 9), "mask=" + hx(rng.bytes(32)))
            s.add("create", 0, 0)
            pw = s.string(rng.choice(pws[:40]))
            s.add("crypt", 0, pw)
            s.add("store", 0, 1)
            s.add("crypt", 0, pw)
            s.add("store", 0, 2)
            s.add("free", 0)
            s.nstr = 0
        scripts.append(s.lines)
    for rn, variant in enumerate(["mt_so"] if quick else ["mt_so", "mt_tsan"]):
        mt_round(ck, rn, variant, ["inject AAAAAAAA", "enable 0"], scripts)
    ck.require_outcomes(["Crypt:-", "Load:0", "DecodeX:0"])
    ck.assumptions += ["passwords are decided for NFKD forms shorter than the phrase buffer (by the API's own types); longer ones are cut, "
                       "which the specification models explicitly (AsciiCut / the normaliser's bound)",
                       "utf8proc NFKD agrees with Python unicodedata on the golden password pool (checked as an environment assumption on every run)"]


# ----------------------------------------------------------------------------------------------- C17
def c17(ck):
    rng = Rng(ck.seed)
    quick = ck.tier == "quick"
    strsize = header_strsize(ck)
    ck.extra["POLYSEED_STR_SIZE"] = strsize
    ck.model("TheoremsLists.tla", lists_cfg(ck, strsize))
    # non-vacuity: the bound must fail for the size the pinned release shipped with
    neg = ck.model("TheoremsLists.tla", lists_cfg(ck, 360), must_hold=False)
    if neg["ok"]:
        ck.infra.append("vacuous: the phrase-length lemma holds even for a 360-byte buffer")
    # extremal and near-extremal witnesses, under AddressSanitizer
    maxima = {}
    for lid in LANG_IDS:
        L = codec.lang(lid)
        order = sorted(range(2048), key=lambda i: (-len(L["wb"][i]), i))
        orderc = sorted(range(2048), key=lambda i: (-len(L["wcb"][i]), i))
        maxima[lid] = dict(decomposed=16 * len(L["wb"][order[0]]) + 15 * len(bytes(L["sep"])),
                           composed=16 * len(L["wcb"][orderc[0]]) + 15 * len(bytes(L["sepC"])))
        exts = [x for x in (extremal_idx(rng, L["wb"]), extremal_idx(rng, L["wcb"])) if x]
        ck.extra.setdefault("extremal_witness_lengths", {})[lid] = [len(codec.phrase(lid, w, composed=False)) for w in exts]
        for k in range(6 if quick else 400):
            src = order if k % 2 == 0 else orderc
            top = 1 + k * 2
            if k < len(exts):
                w = exts[k]
            else:
                w = [0] + [src[rng.below(top)] for _ in range(15)]
                w[2] &= ~1
                w = codec.fix_check(w)
            s = Script()
            seed_script(s, 0, w, rng)
            s.add("encode", 0, lid, 0, 1)
            s.add("decodex", 1, 0, lid, 1)
            s.add("decode", 1, 0, 2)
            # the decomposed spelling of the same phrase must be accepted untruncated too
            s.add("decodex", s.string(codec.phrase(lid, w, composed=False, sep=b" ")), 0, lid, 3)
            ck.add(Exec("witness-%s-%d" % (lid, k), s.lines, variant="san"))
            ck.add(Exec("witness-plain-%s-%d" % (lid, k), s.lines, variant="plain"))
    for lid in LANG_IDS:
        L = codec.lang(lid)
        plain_words = [i for i in range(2048) if all(b < 128 for b in L["wb"][i])] or list(range(2048))
        shortest = sorted(range(2048), key=lambda i: (len(L["wb"][i]), i))
        for k in range(8 if quick else 80):
            if k % 4 == 0:
                w = [0] + [rng.choice(plain_words) for _ in range(15)]          # no non-ASCII letter anywhere (where the list allows)
            elif k % 4 == 1:
                w = [0] + [shortest[rng.below(1 + k)] for _ in range(15)]       # shortest words
            else:
                w = [0] + [rng.below(2048) for _ in range(15)]
            w[2] &= ~1
            for _ in range(200):
                w = codec.fix_check(w)
                if k % 4 != 0 or w[0] in plain_words:
                    break
                w[1 + rng.below(15)] = rng.choice(plain_words)
                w[2] &= ~1
            s = Script()
            seed_script(s, 0, w, rng)
            s.add("encode", 0, lid, rng.choice(COINS_BOUNDARY) if k % 2 else 0, 1)
            s.add("decodex", 1, 0, lid, 1)
            if k % 4 >= 2:
                # "the returned length equals the length of the NUL-terminated output" whatever the allocator does
                # (the pinned code does not allocate here; one that does must still terminate what it returns)
                s.add("env", "fail=%d" % (1 + k % 2))
                s.add("encode", 0, lid, 0, 2)
                s.add("env", "fail=0")
            ck.add(Exec("ordinary-%s-%d" % (lid, k), s.lines, variant="san" if k % 2 else "plain"))
    ck.extra["upper_bounds_per_language"] = maxima
    ck.validate()
    ck.exhaustive = True
    ck.assumptions += ["the maxima are sums of per-position maxima over the golden lists (exact, finite); the code's lists equal the golden lists (check C07)",
                       "the overrun verdict on witnesses is AddressSanitizer's"]


# ----------------------------------------------------------------------------------------------- C19
def c19(ck):
    import unicodedata
    rng = Rng(ck.seed)
    quick = ck.tier == "quick"
    execs = []
    for lid in LANG_IDS:
        L = codec.lang(lid)
        for n in range(4 if quick else 300):
            s = Script()
            f = rng.choice([0, 16, 5])
            s.make_seed(0, rand_secret(rng), rng.below(1024), f, rng, enable=7)
            coin = rng.choice(COINS_BOUNDARY)
            s.add("encode", 0, lid, coin, 1)
            s.add("decode", 1, coin, 1)
            s.add("decodex", 1, coin, lid, 2)
            s.add("store", 2, 1)
            s.add("keygen", 2, coin, 32)
            idx = rand_idx(rng, coin=coin)
            forms = [codec.phrase(lid, idx, composed=True), codec.phrase(lid, idx, composed=False),
                     codec.phrase(lid, idx, composed=False, sep=b" "), codec.phrase(lid, idx, composed=True, sep="　".encode())]
            if L["prefix"]:
                parts = []
                for i in idx:
                    cs = chars_of(L["wb"][i])
                    k = len(cs) if len(cs) <= 4 else 4 + rng.below(len(cs) - 3)
                    parts.append(unicodedata.normalize(rng.choice(["NFC", "NFD"]), rng.choice(variants_of(cs, k)).decode("utf-8")))
                forms.append(" ".join(parts).encode("utf-8"))
                forms.append(b" ".join(bytes(b for b in L["wb"][i] if b < 128) for i in idx))      # unaccented
            for fm in forms:
                r = s.string(fm)
                s.add("decode", r, coin, 3)
                s.add("decodex", r, coin, lid, 4)
                s.add("free", 3)
                s.add("free", 4)
            for pw in ("pässwörd", "contraseña", "パスワード　密碼", "암호문", "mot de passe très sûr"):
                s.add("env", "mask=" + hx(rng.bytes(32)))
                s.add("crypt", 0, s.string(unicodedata.normalize(rng.choice(["NFC", "NFD"]), pw).encode("utf-8")))
            execs.append(("lang-%s-%d" % (lid, n), s.lines))
        toks = []
        for i in range(ck.seed % 16, 2048, 16 if quick else 2):
            w = L["wb"][i]
            cs = chars_of(w)
            toks.append(w)
            if L["prefix"]:
                for k in range(3, len(cs) + 1):
                    toks += variants_of(cs, k)
            toks.append(w + b"\xcc\x81")
        execs.append(("tokens-%s" % lid, ["find %s %s" % (lid, hx(t)) for t in toks]))
    # the odd and the hostile: how input is REJECTED must not depend on the signedness either
    odd = structured_strings(rng, 150 if quick else 2500)
    bom = "\ufeff".encode()
    for lid in LANG_IDS:
        ph = codec.phrase(lid, rand_idx(rng))
        odd += [bom + ph, ph + bom, b"\xef\xbb" + ph, b"\xbf" + ph, b"\x80" + ph, ph.replace(b" ", b" \xc2\xa0", 1)]
    for n, grp in enumerate(chunked(odd, 20)):
        s = Script()
        s.add("enable", 7)
        s.add("env", "rand=" + hx(rand_secret(rng)))
        s.add("create", 0, 0)
        for st in grp:
            if b"\x00" in st or len(st) > 60000:
                continue
            r = s.string(st)
            s.add("decode", r, 0, 1)
            s.add("free", 1)
            for lid in (rng.choice(LANG_IDS), rng.choice(["es", "fr", "jp", "zh_s"])):
                s.add("decodex", r, 0, lid, 1)
                s.add("free", 1)
            if len(st) < 300:
                s.add("env", "mask=" + hx(rng.bytes(32)))
                s.add("crypt", 0, r)              # the same bytes as a password
        execs.append(("odd-%d-0" % n if n == 0 else "odd-%d" % n, s.lines))
    execs.append(("selftest", ["inject AAAAAAAA", "numlangs"]))
    for variant in ("schar", "uchar", "uchar_dbg", "dbg"):
        for name, lines in execs:
            if variant.endswith("dbg") and not (name == "selftest" or name.endswith("-0")):
                continue
            ck.add(Exec("%s-%s" % (variant, name), lines, variant=variant))
    ck.validate()
    ck.extra["builds"] = ["-fsigned-char", "-funsigned-char", "-funsigned-char with assertions", "assertions (default char)"]
    ck.assumptions += ["both signedness settings are judged against the one byte-level specification (which never mentions char), "
                       "so equal verdicts on the same script mean equal API results"]


# ----------------------------------------------------------------------------------------------- C09
_CROSS = {}


def cross_accepted(l1, l2):
    """Words of list l1 (spelled out in full) that list l2 accepts as well, by its own rule (equal key, or a key of at
    least four letters that is a prefix of one of its words' keys)."""
    if (l1, l2) not in _CROSS:
        A, B = codec.lang(l1), codec.lang(l2)

        def key(L, w):
            return bytes(b for b in w if b < 128) if L["accents"] else bytes(w)
        kb = [key(B, w) for w in B["wb"]]
        heads = {}
        for k in kb:
            for n in range(4, len(k) + 1):
                heads.setdefault(k[:n], True)
        full = set(kb)
        out = []
        for i, w in enumerate(A["wb"]):
            k = key(B, w)
            if any(b >= 128 for b in w) and not B["accents"]:
                continue
            if k in full or (B["prefix"] and len(k) >= 4 and k in heads):
                out.append(i)
        _CROSS[(l1, l2)] = out
    return _CROSS[(l1, l2)]


def equal_word_phrase(k):
    """(indices, coin) of the valid phrase whose sixteen words are all entry k of the list (k even): the data words are
    all k, and the coin is what makes word 2 equal to k as well."""
    base = [0] + [0] + [k] * 14
    vals = {}
    c0 = codec.fix_check(list(base))[0]
    for d1 in range(2048):
        w = list(base)
        w[1] = d1
        vals[d1] = codec.fix_check(w)[0]
        if vals[d1] == k:
            return [k, d1] + [k] * 14, d1 ^ k
    return None, None


def ambiguous_phrase_execs(ck, rng, tag, n=4):
    """Phrases that two lists recognise in full: words of one Latin list spelled out that another list accepts too (at
    other indices), valid in the first; and phrases of characters the two Chinese lists share. Automatic decoding says
    'multiple languages' - with or without a language pointer, for the right coin and for any other - and never a seed."""
    pairs = [("fr", "en"), ("en", "fr"), ("en", "es"), ("es", "pt"), ("it", "es"), ("en", "it")]
    for k in range(n):
        s = Script()
        s.add("enable", 7)
        for l1, l2 in pairs:
            pool = [i for i in cross_accepted(l1, l2)]
            if len(pool) < 16:
                continue
            w = None
            for _ in range(400):
                c = [0] + [rng.choice(pool) for _ in range(15)]
                c[2] &= ~1
                c = codec.fix_check(c)
                if c[0] in pool and c[2] in pool:
                    w = c
                    break
            if not w:
                continue
            r = s.string(codec.phrase(l1, w))
            for coin in (0, rng.below(2048)):
                s.add("decode", r, coin, 1)
                s.add("free", 1)
                s.add("decode", r, coin, 1, "nolang")
                s.add("free", 1)
            s.add("decodex", r, 0, l1, 1)
            s.add("free", 1)
            # one word exchanged for another one of the pool: still two lists, still no guess
            w2 = list(w)
            w2[1 + rng.below(15)] = rng.choice(pool)
            r2 = s.string(codec.phrase(l1, w2))
            s.add("decode", r2, 0, 1, "nolang")
            s.add("free", 1)
            s.add("decode", r2, 0, 1)
            s.add("free", 1)
        for lid in ("zh_s", "zh_t"):
            r = s.string(codec.phrase(lid, ambiguous_idx(rng, lid)))
            s.add("decode", r, 0, 1, "nolang")
            s.add("free", 1)
            s.add("decode", r, 0, 1)
            s.add("free", 1)
        ck.add(Exec("%s-ambiguous-%d" % (tag, k), s.lines))


def boundary_phrase_execs(ck, rng, tag, n_equal=3):
    """Phrases at the edges of what the library can produce, through encode and both decoders: the longest phrase of
    every language (every word, the check word too, of maximal length - 543 bytes in Korean, the whole buffer), a
    single-word change of it, and phrases that consist of one word repeated sixteen times (the all-zero seed, and for
    every even list entry the seed and coin that spell it sixteen times)."""
    for lid in LANG_IDS:
        L = codec.lang(lid)
        s = Script()
        s.add("enable", 7)
        for src in ("wb", "wcb"):
            w = extremal_idx(rng, L[src], tries=20000)
            if not w:
                continue
            seed_script(s, 0, w, rng)
            s.add("encode", 0, lid, 0, 1)
            s.add("decodex", 1, 0, lid, 1)
            s.add("decode", 1, 0, 2)
            s.add("store", 1, 1)
            mx = max(len(x) for x in L[src])
            longest = [i for i in range(2048) if len(L[src][i]) == mx]
            for pos in (0, 1 + rng.below(15)):
                w2 = list(w)
                alt = [i for i in longest if i != w[pos]]
                if alt:
                    w2[pos] = rng.choice(alt)
                    r = s.string(codec.phrase(lid, w2))
                    s.add("decodex", r, 0, lid, 3)
                    s.add("decode", r, 0, 3)
            for h in (0, 1, 2, 3):
                s.add("free", h)
        ks = [0] + [2 * rng.below(1024) for _ in range(n_equal)]
        for k in ks:
            w, coin = equal_word_phrase(k)
            if w is None:
                continue
            r = s.string(codec.phrase(lid, [k] * 16))
            s.add("decodex", r, coin, lid, 1)
            s.add("decode", r, coin, 2)
            s.add("encode", 1, lid, coin, 2)
            s.add("decodex", r, (coin + 1) % 2048, lid, 3)
            for h in (1, 2, 3):
                s.add("free", h)
        ck.add(Exec("%s-boundary-%s" % (tag, lid), s.lines))


def structured_strings(rng, n):
    """Strings around valid phrases: abbreviations, foreign words, separator and count defects, raw bytes."""
    import unicodedata
    out = []
    while len(out) < n:
        lid = rng.choice(LANG_IDS)
        L = codec.lang(lid)
        idx = rand_idx(rng, features=rng.choice([0, 0, 16, 8, 1]))
        toks = [L["wcb"][i] if rng.chance(1, 2) else L["wb"][i] for i in idx]
        kind = rng.below(19)
        sep = b" "
        if kind in (0, 14, 15):
            pass
        elif kind == 1 and L["prefix"]:
            toks = [t if len(t) <= 4 else bytes(b for b in L["wb"][i] if b < 128)[:4 + rng.below(3)] for t, i in zip(toks, idx)]
        elif kind == 2:        # one token from another language
            other = codec.lang(rng.choice(LANG_IDS))
            toks[rng.below(16)] = other["wb"][rng.below(2048)]
        elif kind == 3:        # all tokens shared between the Chinese lists
            lid2 = rng.choice(["zh_s", "zh_t"])
            toks = [codec.lang(lid2)["wb"][i] for i in ambiguous_idx(rng, lid2)]
            if rng.chance(1, 2):
                toks[rng.below(16)] = codec.lang(lid2)["wb"][rng.choice(shared_zh(lid2))]       # checksum now wrong
        elif kind == 4:        # Latin cross-language prefixes (several lists accept every token)
            pools = [codec.lang(x) for x in ("en", "es", "fr", "it", "pt", "cs")]
            toks = []
            for _ in range(16):
                P = rng.choice(pools)
                toks.append(bytes(b for b in P["wb"][rng.below(2048)] if b < 128)[:4])
        elif kind in (16, 17):  # every token a word of one Latin list spelled out in full that another list accepts too
            l1, l2 = rng.choice([("en", "es"), ("en", "fr"), ("en", "it"), ("es", "pt"), ("it", "es"), ("fr", "en"), ("pt", "es"), ("es", "it"), ("it", "pt"), ("cs", "it")])
            pool = cross_accepted(l1, l2)
            if len(pool) >= 8:
                P = codec.lang(l1)
                toks = [P["wb"][rng.choice(pool)] for _ in range(16)]
        elif kind == 18:        # letter case is not ignored: a capital first letter (of the phrase, of some word), a word in capitals
            p_ = rng.choice([0, 0, rng.below(16)])
            t = toks[p_]
            toks[p_] = rng.choice([t[:1].upper() + t[1:], t.upper(), t[:-1] + t[-1:].upper()])
        elif kind == 5:
            toks = toks[:15]
            if rng.chance(1, 2):            # ... and a trailing separator: still fifteen
                out.append(sep.join(toks) + rng.choice([b" ", "　".encode(), b"  "]))
                continue
        elif kind == 6:
            toks = toks + [toks[0]]
        elif kind == 7:
            # (the compatibility spaces decompose to U+0020 under NFKD: to the decoders they ARE spaces)
            sep = rng.choice([b"  ", b"\t", "　".encode(), b" \n", b",", "\u00a0".encode(), "\u2003".encode(), "\u202f".encode(), "\u205f".encode(),
                              "\u2009".encode(), b"\r\n", "\u3000\u3000".encode(), "\u200b".encode()])
        elif kind == 8:
            toks[rng.below(16)] = b""
        elif kind == 9:
            toks = [b""] + toks if rng.chance(1, 2) else toks
            s = sep.join(toks) + rng.choice([b" ", b"  ", b" x", "　".encode()])
            out.append(s)
            continue
        elif kind == 10:
            out.append(rng.bytes(rng.below(200)).replace(b"\x00", b"\x01"))
            continue
        elif kind == 11:
            p = rng.choice([0, 0, rng.below(16)])
            deco = rng.choice([b"x", b"\xcc\x81", b"\xff", "ñ".encode(), "¿".encode(), "\ufeff".encode(), "\u200b".encode(), "的".encode(), "あ".encode()])
            toks[p] = (deco + toks[p]) if rng.chance(1, 2) else (toks[p] + deco)
        elif kind == 12:
            i, j = rng.below(16), rng.below(16)
            toks[i], toks[j] = toks[j], toks[i]
        elif kind == 13:
            toks = [rng.choice([b"xxx", b"abandon", "的".encode(), b"a"]) for _ in range(rng.choice([0, 1, 16, 17, 40]))]
        out.append(sep.join(toks))
    return out


def c09(ck):
    rng = Rng(ck.seed)
    quick = ck.tier == "quick"
    ck.model("TheoremsSplit.tla", "TheoremsSplit_quick.cfg" if quick else "TheoremsSplit_thorough.cfg")
    strs = structured_strings(rng, 500 if quick else 6000)
    strs += [codec.phrase("es", codec.words_of(bytes(19), 0, 0)), b"impo sort usua cabi venu nobl oliv clim cont barr marc auto prod vaca torn fati"]
    # Two executions per string, so that a deviation of one decoder cannot hide behind the other: (a) automatic
    # first, then every explicit language - each explicit outcome is compared with the automatic one; (b) every
    # explicit language first, then automatic - the automatic outcome is compared with the explicit one of the
    # language the specification says is the only one that recognises all tokens.
    for n, st in enumerate(strs):
        if len(st) > 60000 or b"\x00" in st:
            continue
        mask = rng.choice([0, 7])
        coin = rng.choice([0, 0, 1, 2047])
        faulty = rng.chance(1, 3)
        for order in "ab":
            s = Script()
            s.add("enable", mask)
            r = s.string(st)

            def explicit():
                for lid in LANG_IDS:
                    s.add("decodex", r, coin, lid, 1)
                    s.add("free", 1)

            def automatic():
                s.add("decode", r, coin, 1)
                s.add("free", 1)
                s.add("decode", r, coin, 1, "nolang")          # the caller may pass no language pointer: same answers
                s.add("free", 1)
            for f in ([0, 1] if faulty else [0]):
                # precedence with a failing allocator: checksum before memory, memory before unsupported
                s.add("env", "fail=%d" % f)
                if order == "a":
                    automatic()
                    explicit()
                else:
                    explicit()
                    automatic()
            s.add("env", "fail=0")
            ck.add(Exec("string-%d%s" % (n, order), s.lines))
    # detection has no memory: whatever was decoded before - successfully, in whichever language - a string that two
    # lists recognise is reported as such, and a string of one list is decoded in that list
    amb = [("es", "en", b"impo sort usua cabi venu nobl oliv clim cont barr marc auto prod vaca torn fati")]
    for k in range(2 if quick else 12):
        for lid, other in (("zh_s", "zh_t"), ("zh_t", "zh_s")):
            amb.append((lid, other, codec.phrase(lid, ambiguous_idx(rng, lid))))
    for n, (l1, l2, a) in enumerate(amb):
        for prev in (l1, l2, rng.choice([x for x in LANG_IDS if x not in (l1, l2)])):
            s = Script()
            s.add("enable", 0)
            ra = s.string(a)
            for rep_ in range(2):
                rp = s.string(codec.phrase(prev, rand_idx(rng)))
                s.add("decode", rp, 0, 1)            # an unambiguous detection of `prev` ...
                s.add("free", 1)
                s.add("decode", ra, 0, 1)            # ... must not colour the next one
                s.add("free", 1)
                for lid in (l1, l2):
                    s.add("decodex", ra, 0, lid, 1)
                    s.add("free", 1)
                # and the other way round: after the ambiguous string, a plain phrase of another list
                ro = s.string(codec.phrase(l2 if rep_ else l1, rand_idx(rng)))
                s.add("decode", ro, 0, 1)
                s.add("free", 1)
            ck.add(Exec("history-%d-%s" % (n, prev), s.lines))
    boundary_phrase_execs(ck, rng, "c09")
    ambiguous_phrase_execs(ck, rng, "c09")
    ck.validate()
    ck.require_outcomes(["Decode:0", "Decode:1", "Decode:2", "Decode:3", "Decode:7", "Decode:6", "DecodeX:2", "DecodeX:0"])
    ck.assumptions += ["the relation between automatic and explicit decoding is a TLC-checked theorem of the specification "
                       "(TheoremsSplit); each of the eleven calls per string is judged against it separately"]


# ----------------------------------------------------------------------------------------------- C13 / C15 walks
def random_walk(rng, length, faults=False, inject=True, name="walk"):
    """Model-guided random walk over the whole API with up to six live seeds."""
    s = Script()
    H = 6
    have_str, have_buf = [], []
    pws = [b"pw", b"", "pässwörd".encode(), codec.nfd("pässwörd".encode()), b"correct horse battery staple", b"PIN-2024-XYZ", b"Correct Horse Battery Staple"]
    live = []          # registers that (probably) hold a seed
    cur_mask = [rng.choice([7, 7, 5, 0])]
    s.add("enable", cur_mask[0])
    # a few strings the library did not issue: what a user might type or paste (abbreviations, other separators,
    # line ends, foreign words, wrong counts); the decoders' answers to them are part of the abstract model too
    for st in structured_strings(rng, 3):
        if 0 < len(st) < 3000 and b"\x00" not in st:
            have_str.append(s.string(st))
    r0 = rand_idx(rng)
    have_str.append(s.string(codec.phrase("en", r0) + rng.choice([b"\n", b"\r\n", b"\t", b" ", b""])))
    have_str.append(s.string(codec.phrase(rng.choice(LANG_IDS), r0).replace(b" ", rng.choice([b"\t", b"\n", b"  ", b" "]))))

    def pick():
        return rng.choice(live) if live and rng.chance(9, 10) else rng.below(H)

    def target():
        free = [x for x in range(H) if x not in live]
        t = rng.choice(free) if free else rng.below(H)
        if t not in live:
            live.append(t)
        return t

    for step in range(length):
        k = rng.below(100)
        if faults and rng.chance(1, 3):
            s.add("env", "fail=%d" % rng.choice([0, 1, 1, 2, 3]))
        if not live:
            k = 0
        h = pick()
        if k < 12:
            h = target()
            s.add("env", "rand=" + hx(rng.bytes(19)), "time=%d" % rng.choice([EPOCH + rng.below(1100) * STEP + rng.below(STEP), rng.u64(), 0, EPOCH - 1, 2 ** 64 - 1,
                                          rng.choice([2 ** 32 - 1, 2 ** 32, 2 ** 31 - 1, 2 ** 31, 2 ** 63, EPOCH + 2 ** 32, EPOCH + 1024 * STEP - 1, EPOCH + 1024 * STEP, EPOCH])]))
            s.add("create", h, (rng.below(8) & cur_mask[0]) if rng.chance(3, 4) else rng.choice([rng.below(16), rng.u64() & 0xFFFFFFFF]))
        elif k < 24:
            r = s.sreg()
            s.add("encode", h, rng.choice(LANG_IDS), rng.choice(COINS_BOUNDARY + [rng.below(2048)]), r)
            have_str.append(r)
        elif k < 36 and have_str:
            s.add("decode", rng.choice(have_str), rng.choice([0, 0, 1, 2047, rng.below(2048)]), target())
        elif k < 46 and have_str:
            s.add("decodex", rng.choice(have_str), rng.choice([0, 0, 1, 2047]), rng.choice(LANG_IDS), target())
        elif k < 54:
            b = s.breg()
            s.add("store", h, b)
            have_buf.append(b)
        elif k < 62 and have_buf:
            s.add("load", rng.choice(have_buf), target())
        elif k < 70:
            s.add("env", "mask=" + hx(biased_mask(rng, rng.below(12))))
            s.add("crypt", h, s.string(rng.choice(pws)))
        elif k < 76:
            s.add("keygen", h, rng.choice(COINS_BOUNDARY), rng.choice(KEY_SIZES))
        elif k < 82:
            s.add(rng.choice(["bday %d", "isenc %d", "feat %d 7", "feat %d 4294967295"]) % h)
        elif k < 88:
            s.add("free", h if rng.chance(9, 10) else -1)
            if h in live and len(live) > 1:
                live.remove(h)
        elif k < 95:
            cur_mask[0] = rng.choice([0, 1, 5, 7, 7, 13, 0xFFFFFFFA])
            s.add("enable", cur_mask[0])
            cur_mask[0] &= 7
        elif k < 98 and inject:
            s.add("inject", "".join(rng.choice("ABC") for _ in range(5)) + "".join(rng.choice("ABCN") for _ in range(3)))
        else:
            # inputs the library cannot produce itself: reserved features, damaged phrases and images
            f = rng.choice([8, 9, 24, 31, 2])
            idx = rand_idx(rng, features=f)
            have_str.append(s.string(codec.phrase(rng.choice(LANG_IDS), idx)))
            img = bytearray(codec.image(rand_secret(rng), rng.below(1024), f))
            if rng.chance(1, 2):
                img[rng.below(32)] ^= 1 << rng.below(8)
            have_buf.append(s.buf(img))
    return Exec(name, s.lines)


def hist_to_script(hist):
    """A behaviour of PolyseedMC (Begin / dependency / Ret records) as a driver script: the caller's
    choices become operations, the environment's choices become the env schedule."""
    lines = []
    i = 0
    while i < len(hist):
        ev = hist[i]
        assert ev["e"] == "Begin"
        j = i + 1
        deps = []
        while hist[j]["e"] != "Ret":
            deps.append(hist[j])
            j += 1
        ret = hist[j]
        op, a = ev["op"], ev["a"]
        envs = []
        allocs = [d for d in deps if d["e"] == "Alloc"]
        envs.append("fail=%d" % sum(1 << n for n, d in enumerate(allocs) if d["blk"] == 0))
        for d in deps:
            if d["e"] == "Rand":
                envs.append("rand=" + hx(bytes(d["out"])))
            elif d["e"] == "Time":
                v = d["val"]
                envs.append("time=%d" % (v[0] + (v[1] << 16) + (v[2] << 32) + (v[3] << 48)))
            elif d["e"] == "Kdf":
                envs.append("mask=" + hx(bytes(d["out"])))
        lines.append("env " + " ".join(envs))
        tgt = ret.get("h", 0) or 99
        if op == "Inject":
            lines.append("inject " + "".join(a["set"]))
        elif op == "Enable":
            lines.append("enable %d" % a["lo"])
        elif op == "Create":
            lines.append("create %d %d" % (tgt, a["lo"]))
        elif op in ("Decode", "DecodeX"):
            p = a["str"]
            sd = p["seed"]
            idx = codec.words_of(bytes(sd["secret"]), sd["birthday"], sd["features"], p["coin"])
            lid = LANG_IDS[p["lang"] - 1]
            if p["defect"] == "check":
                idx[4] ^= 1
            if p["defect"] == "ambig":
                # every token accepted by English AND by the explicitly selectable languages of the model
                text = b"impo sort usua cabi venu nobl oliv clim cont barr marc auto prod vaca torn fati"
            else:
                toks = [codec.lang(lid)["wcb"][k] for k in idx]
                if p["defect"] == "count":
                    toks = toks[:15]
                if p["defect"] == "word":
                    toks[7] = b"xqzxqz"
                text = b" ".join(toks)
            lines.append("str 1 " + hx(text))
            if op == "Decode":
                lines.append("decode 1 %d %d" % (a["coin"], tgt))
            else:
                lines.append("decodex 1 %d %s %d" % (a["coin"], LANG_IDS[a["lang"] - 1], tgt))
        elif op == "Load":
            lines.append("buf 1 " + hx(bytes(a["buf"])))
            lines.append("load 1 %d" % tgt)
        elif op == "Free":
            lines.append("free %d" % (a["h"] if a["h"] else -1))
        elif op == "Crypt":
            lines.append("str 2 " + hx(bytes(a["pw"])))
            lines.append("crypt %d 2" % a["h"])
        elif op == "Keygen":
            lines.append("keygen %d %d %d" % (a["h"], a["coin"], a["size"]))
        elif op == "Store":
            lines.append("store %d 3" % a["h"])
        elif op == "Feature":
            lines.append("feat %d %d" % (a["h"], a["lo"]))
        i = j + 1
    return lines


def mc_behaviours(ck, cfg, limit):
    """Behaviours of the bounded model, printed by TLC as JSON histories."""
    import json
    import re
    res = ck.model("PolyseedMC.tla", cfg, heap="16g", timeout=3000)
    out = []
    for m in re.finditer(r'<<\s*"HIST",\s*"((?:[^"\\]|\\.)*)"\s*>>', res["out"], re.S):
        try:
            out.append(json.loads(json.loads('"' + re.sub(r"\s*\n\s*", "", m.group(1)) + '"')))
        except ValueError:
            ck.notes.append("unparsable behaviour skipped")
    if len(out) > limit:
        step = len(out) // limit
        out = out[::step][:limit]
    return out



# ----------------------------------------------------------------------------------------------- the repository's own scenario
def repo_test_scenario():
    """The repository's test script (tests/tests.c), re-run through the conformance driver so that every call
    it makes is judged by the specification - with the complete projection of all live seeds, the dependency
    protocol and the ledger - instead of by the handful of assertions the script contains."""
    import re
    src = open(os.path.join(run.REPO, "tests", "tests.c"), encoding="utf-8-sig").read()

    def cstr(name):
        m = re.search(r"static const char\* %s\s*=\s*((?:\s*(?:u8)?\"(?:[^\"\\]|\\.)*\")+)\s*;" % name, src)
        parts = re.findall(r'"((?:[^"\\]|\\.)*)"', m.group(1))
        return "".join(parts).encode("utf-8")

    def carr(first_bytes):
        m = re.search(r"\{\s*(0x%02x, 0x%02x,[^}]*)\}" % (first_bytes[0], first_bytes[1]), src)
        return bytes(int(x, 16) for x in re.findall(r"0x([0-9a-fA-F]{2})", m.group(1)))

    rand1, rand2, rand3 = carr((0xdd, 0x76)), carr((0x5a, 0x2b)), carr((0x67, 0xb9))
    mask = carr((0x54, 0x4a))
    T1, T2, T3 = 1638446400, 3118651200, 4305268800
    s = Script()
    en = [cstr("g_phrase_en%d" % i) for i in range(1, 6)]
    es = [cstr("g_phrase_es%d" % i) for i in range(1, 6)]
    # --- seed 1
    s.add("inject", "AAAAAAAA")
    s.add("numlangs")
    s.add("env", "rand=" + hx(rand1), "time=%d" % T1)
    s.add("create", 1, 0)
    s.add("bday", 1)
    for q in (1, 2, 4):
        s.add("feat", 1, q)
    for f in (1, 2, 4):
        s.add("create", 9, f)          # unsupported by default
    s.add("keygen", 1, 0, 32)
    s.add("store", 1, 1)
    s.add("load", 1, 2)
    s.add("free", 2)
    img = None
    s.add("encode", 1, "en", 0, 1)
    s.add("load", 1, 2)
    s.add("encode", 2, "en", 0, 2)
    s.add("free", 2)
    for ph, coin in ((en[0], 0), (en[1], 0), (en[2], 0), (en[3], 0), (en[4], 0), (en[0], 1)):
        s.add("decode", s.string(ph), coin, 2)
        s.add("free", 2)
    for lid in LANG_IDS:
        r = s.sreg()
        s.add("encode", 1, lid, 0, r)
        s.add("decode", r, 0, 2)
        s.add("free", 2)
    s.add("free", 1)
    s.add("free", -1)
    # --- seed 2
    s.add("inject", "BBBBBBBB")
    s.add("env", "rand=" + hx(rand2), "time=%d" % T2)
    s.add("create", 1, 0)
    s.add("bday", 1)
    s.add("enable", 7)
    for f in (1, 2, 4):
        s.add("create", 9, f)
        s.add("feat", 9, 7)
        s.add("free", 9)
    s.add("enable", 0)
    s.add("keygen", 1, 0, 32)
    s.add("store", 1, 3)
    s.add("load", 3, 2)
    s.add("free", 2)
    r = s.sreg()
    s.add("encode", 1, "es", 0, r)
    s.add("decode", r, 0, 2)
    s.add("free", 2)
    for ph in es[1:]:
        s.add("decode", s.string(ph), 0, 2)
        s.add("free", 2)
    mult = s.string(cstr("g_phrase_es_mult"))
    s.add("decode", mult, 0, 2)
    s.add("decodex", mult, 0, "es", 2)
    s.add("free", 2)
    for lid in LANG_IDS:
        r = s.sreg()
        s.add("encode", 1, lid, 0, r)
        s.add("decode", r, 0, 2)
        s.add("free", 2)
    s.add("free", 1)
    # --- seed 3
    s.add("inject", "CCCCCCCC")
    s.add("enable", 5)
    s.add("env", "rand=" + hx(rand3), "time=%d" % T3, "mask=" + hx(mask))
    for f in (1, 2, 4):
        s.add("create", 9, f)
        s.add("free", 9)
    s.add("create", 1, 1)
    s.add("feat", 1, 1)
    s.add("bday", 1)
    s.add("keygen", 1, 1, 32)
    s.add("store", 1, 4)
    s.add("load", 4, 2)
    s.add("free", 2)
    r = s.sreg()
    s.add("encode", 1, "en", 1, r)
    s.add("decode", r, 1, 2, "nolang")
    s.add("free", 2)
    pw = s.string(b"password")
    s.add("crypt", 1, pw)
    s.add("isenc", 1)
    s.add("crypt", 1, pw)
    s.add("isenc", 1)
    s.add("free", 1)
    for g in ("g_phrase_garbage1", "g_phrase_garbage2"):
        s.add("decode", s.string(cstr(g)), 0, 2)
    # --- out of memory
    s.add("inject", "AAAAAAAA")
    s.add("env", "fail=1")
    s.add("create", 1, 0)
    s.add("decode", s.string(en[0]), 0, 1)
    s.add("env", "fail=0")
    return s.lines


def impl_shapes(ck):
    """Dependency-call shapes the implementation-structure model (PolyseedImpl.tla) can produce."""
    import re
    res = ck.model("PolyseedImpl.tla", "PolyseedImpl_shapes.cfg", heap="16g", timeout=3000)
    out = set()
    for m in re.finditer(r'<<\s*"SHAPE",\s*"(\w+)",\s*(\d+),\s*<<(.*?)>>\s*>>(?=\s*(?:<<\s*"SHAPE"|\n[A-Z]|$))', res["out"], re.S):
        pairs = re.findall(r'<<\s*"(\w+)",\s*"([\w-]+)"\s*>>', m.group(3))
        out.add((m.group(1), int(m.group(2)), tuple(pairs)))
    return out


def compare_shapes(ck, model):
    """Informational: does the code still take the steps spec/PolyseedImpl.tla describes?  A refactoring may
    legitimately change them; the contract (not this) decides violations."""
    ops = {"Create", "Decode", "DecodeX", "Load", "Free", "Crypt", "Keygen", "Store", "Feature", "Enable", "Inject", "Encode"}
    code = {s for s in ck.shapes if s[0] in ops}
    unknown = sorted(code - model)
    ck.extra["implementation_model"] = dict(model_shapes=len(model), code_shapes=len(code), code_shapes_in_model=len(code & model),
                                            not_in_model=[list(map(str, u)) for u in unknown[:10]])
    if unknown:
        print("NOTE: %d dependency-call shapes of the code are not paths of spec/PolyseedImpl.tla (model drift, not a violation), e.g. %s"
              % (len(unknown), unknown[0]))


def c13(ck):
    rng = Rng(ck.seed)
    quick = ck.tier == "quick"
    # the implementation's step structure composed with the contract: Conforms, ReturnsClean on every exit path
    ck.model("PolyseedImpl.tla", "PolyseedImpl.cfg", heap="16g", timeout=3000)
    model_shapes = impl_shapes(ck)
    # contract |= property, all behaviours within the bound (with per-action coverage: an action never taken
    # would mean the invariants were never exercised on it)
    ck.model("PolyseedMC.tla", "PolyseedMC_quick.cfg" if quick else "PolyseedMC_thorough.cfg", heap="16g", timeout=3400,
             extra=() if quick else ("-coverage", "1"))
    cov = ck.models[-1].get("coverage", {})
    for act in ("MCBegin", "MCDep", "MCReturn"):
        if cov and cov.get(act, [0, 0])[0] == 0:
            ck.infra.append("vacuous model run: action %s was never taken" % act)
    # spec -> code: behaviours of the model replayed through the library
    beh = mc_behaviours(ck, "PolyseedMC_replay.cfg" if quick else "PolyseedMC_replayfull.cfg", 400 if quick else 100000)
    ck.extra["model_behaviours_replayed"] = len(beh)
    for n, grp in enumerate(chunked(beh, 8)):
        for m, h in enumerate(grp):
            ck.add(Exec("replay-%d-%d" % (n, m), hist_to_script(h)))
    # the repository's own test script under the specification's eyes (all builds that matter)
    try:
        lines = repo_test_scenario()
        for v in ("plain", "dbg", "san"):
            ck.add(Exec("repository-test-script-" + v, lines, variant=v))
    except Exception as e:      # the scenario is parsed from tests/tests.c; a rewritten test file only loses this execution
        ck.notes.append("repository test scenario not available: %r" % (e,))
    # code -> spec: random walks
    for n in range(60 if quick else 1500):
        ck.add(random_walk(rng, 60 if quick else 120, faults=(n % 3 == 0), name="walk-%d" % n))
    for n in range(6 if quick else 60):
        ex = random_walk(rng, 60, faults=True, name="walk-dbg-%d" % n)
        ex.variant = "dbg"
        ck.add(ex)
    ck.validate()
    compare_shapes(ck, model_shapes)
    ck.assumptions += ["exhaustive for all behaviours of the bounded model (pools and bounds in spec/PolyseedMC*.cfg); random walks beyond it"]


def c15(ck):
    rng = Rng(ck.seed)
    quick = ck.tier == "quick"
    ck.level = "fault_enumeration"
    ck.model("PolyseedMC.tla", "PolyseedMC_quick.cfg", heap="16g", timeout=3400)
    beh = mc_behaviours(ck, "PolyseedMC_replay.cfg" if quick else "PolyseedMC_replayfull.cfg", 400 if quick else 100000)
    nfail = 0
    for n, h in enumerate(beh):
        if any(e["e"] == "Alloc" and e["blk"] == 0 for e in h) or n % 4 == 0:
            ck.add(Exec("replay-%d" % n, hist_to_script(h)))
            nfail += 1
    ck.extra["model_behaviours_replayed"] = nfail
    # every operation x outcome class x {request succeeds, request fails}, also with libc malloc/free
    for rep in range(2 if quick else 20):
        for ex in exit_path_scripts(rng, "paths-r%d" % rep):
            ck.add(ex)
        for ex in exit_path_scripts(rng, "libc-r%d" % rep):
            ex.lines = ["inject AAAAA" + rng.choice(["ANN", "NNN", "AAN", "ANA"])] + ex.lines
            ck.add(ex)
    # blocks of seeds whose CONTENT could be mistaken for something else: the all-zero seed (secret, birthday,
    # features and check value all 0 - "abandon" x 16), all-ones secrets, a seed equal to a freed block's
    # wipe pattern: each reached through every constructor, each returned exactly once
    for rep in range(1 if quick else 6):
        for sec, t, name in ((bytes(19), 0, "zero"), (bytes(19), EPOCH + 5, "zero-at-epoch"), (bytes([255] * 18 + [63]), EPOCH + 1023 * STEP, "ones"),
                             (bytes([0xA5] * 18 + [0x25]), EPOCH + 77 * STEP, "a5")):
            s = Script()
            s.add("enable", 0)
            s.add("env", "rand=" + hx(sec), "time=%d" % t)
            s.add("create", 0, 0)
            s.add("store", 0, 1)
            s.add("load", 1, 1)
            lid = rng.choice(LANG_IDS) if rep else "en"
            s.add("encode", 0, lid, 0, 1)
            s.add("decodex", 1, 0, lid, 2)
            s.add("decode", 1, 0, 3)
            for h in (0, 1, 2, 3):
                s.add("free", h)
            s.add("free", -1)
            ck.add(Exec("content-%s-%d" % (name, rep), s.lines))
    for n in range(30 if quick else 600):
        ck.add(random_walk(rng, 60, faults=True, name="faultwalk-%d" % n))
    for n in range(4 if quick else 40):
        ex = random_walk(rng, 60, faults=True, name="faultwalk-san-%d" % n)
        ex.variant = "san"
        ck.add(ex)
    ck.validate()
    ck.require_outcomes(["Create:6", "Decode:6", "DecodeX:6", "Load:6", "Decode:4", "DecodeX:4", "Load:4", "Load:5", "Load:3", "Decode:3", "Decode:1", "Decode:2", "Free:-"])
    ck.rule = ("evaluations = API calls recorded and judged; every constructor is run on every outcome class with the allocation "
               "request succeeding and failing (failure schedule = which requests of the call fail), model behaviours with every "
               "NULL choice are replayed, walks run under random schedules; distinct_nontrivial = distinct (operation, arguments) by hash")


# ----------------------------------------------------------------------------------------------- C18
def c18(ck):
    rng = Rng(ck.seed)
    quick = ck.tier == "quick"
    ck.model("PolyseedMC.tla", "PolyseedMC_quick.cfg", heap="16g", timeout=3400)
    # random-source outputs: every unit bit of the 19 bytes (including the two that must be dropped)
    outs = []
    for k in range(152):
        b = bytearray(19)
        b[k // 8] = 1 << (7 - k % 8)
        outs.append(bytes(b))
    outs += [bytes([255] * 19), bytes(19)] + [rng.bytes(19) for _ in range(20 if quick else 500)]
    # every constant byte (fill patterns a defensive implementation might mistake for "not filled"), whole and as head / tail
    for v in range(256):
        outs.append(bytes([v] * 19))
        if v % 8 == 5 or not quick:
            outs.append(rng.bytes(15) + bytes([v] * 4))
            outs.append(bytes([v] * 4) + rng.bytes(15))
    odd_clocks = [0, 1, EPOCH - 1, 2 ** 64 - 1, 2 ** 63, 2 ** 32, EPOCH + 1024 * STEP + 7]
    for n, grp in enumerate(chunked(outs, 40)):
        s = Script()
        for o in grp:
            # also clocks a defensive implementation might distrust: nothing but the injected clock may be asked
            s.add("env", "rand=" + hx(o), "time=%d" % (rng.choice(odd_clocks) if rng.chance(1, 3) else EPOCH + rng.below(1024) * STEP))
            s.add("create", 1, 0)
            s.add("store", 1, 1)
            s.add("free", 1)
        ck.add(Exec("rand-%d" % n, s.lines))
    # injection sequences; the caller's struct is overwritten right after polyseed_inject returns
    for n in range(40 if quick else 600):
        s = Script()
        for k in range(1 + rng.below(4)):
            st = "".join(rng.choice("ABC") for _ in range(5)) + "".join(rng.choice("ABCNN") for _ in range(3))
            if k == 0 and n % 2 == 0:
                # a seed that stays alive across the following injections: they must take effect all the same
                s.add("env", "rand=" + hx(rng.bytes(19)))
                s.add("create", 9, 0)
            s.add("inject", st)
            if n % 4 == 0:
                s.add("env", "fail=1")          # the allocator now in force must be the one asked
                s.add("create", 8, 0)
                s.add("env", "fail=0")
            s.add("env", "rand=" + hx(rng.bytes(19)), "time=%d" % (EPOCH + rng.below(900) * STEP), "libctime=%d" % (EPOCH + rng.below(900) * STEP),
                  "mask=" + hx(rng.bytes(32)))
            s.add("create", 1, 0)
            lid = rng.choice(LANG_IDS)
            s.add("encode", 1, lid, 0, 1)
            s.add("decode", 1, 0, 2)
            s.add("crypt", 2, s.string("pässwörd".encode()))
            s.add("keygen", 2, 1, 32)
            s.add("store", 2, 1)
            s.add("load", 1, 3)
            s.add("free", 1)
            s.add("free", 2)
            s.add("free", 3)
        s.add("keygen", 9, 0, 32)
        s.add("free", 9)
        ck.add(Exec("inject-%d" % n, s.lines))
    # the normaliser is the caller's: the library knows of a string's decomposed form what the injected function says and
    # nothing else (an identity 'normaliser' leaves U+3000 and precomposed letters as they are - and so must the library)
    for n in range(6 if quick else 60):
        s = Script()
        s.add("env", "nfkd=identity")
        for lid in ("jp", "ko", "es", "fr", "zh_s"):
            idx = rand_idx(rng)
            for composed in (True, False):
                r = s.string(codec.phrase(lid, idx, composed=composed))
                s.add("decode", r, 0, 1)
                s.add("free", 1)
                s.add("decodex", r, 0, lid, 1)
                s.add("free", 1)
        s.add("env", "nfkd=real")
        ck.add(Exec("identity-normaliser-%d" % n, s.lines))
    ck.validate()
    ck.require_outcomes(["Inject:-", "Create:0", "Crypt:-", "Keygen:-"])


# ----------------------------------------------------------------------------------------------- C14
def hostile_strings(rng, n, S):
    out = []
    L_en = codec.lang("en")
    fill = [b"a", b"zoo", b"abandon", "ñ".encode(), "가".encode(), b"\x80", b"\xff", b"\xc3", b"\xe3\x81", b"\xf0\x9f\x98", b"\xc0\xaf", b"\xed\xa0\x80"]
    while len(out) < n:
        kind = rng.below(16)
        lid = rng.choice(LANG_IDS)
        L = codec.lang(lid)
        # valid phrases too, also ones whose features are not enabled: a failed call must leave no seed behind
        idx = rand_idx(rng, features=rng.choice([0, 0, 16, 1, 8, 5, 31]))
        base = codec.phrase(lid, idx, composed=rng.chance(1, 2))
        if kind == 0:          # exact lengths around the buffer size, pure ASCII, token counts 1 / 16 / many
            target = rng.choice([0, 1, S - 2, S - 1, S, S + 1, 2 * S, 65000])
            tk = rng.choice([b"x" * 400, b"abandon", b"zoo", b"a"])
            st = (tk + b" ") * (target // (len(tk) + 1) + 1)
            out.append(st[:target])
        elif kind == 1:        # exactly 16 tokens, total length at the boundary
            toks = [L_en["wb"][i] for i in idx]
            target = rng.choice([S - 2, S - 1, S, S + 1])
            pad = target - len(b" ".join(toks))
            toks[rng.below(16)] += b"a" * max(pad, 0)
            out.append(b" ".join(toks))
        elif kind == 2:        # non-ASCII only after the position where the lazy path stops looking
            pre = (b"abandon " * 200)[:rng.choice([S - 2, S - 1, S, S + 5])]
            out.append(pre + rng.choice(fill[3:]) + b" tail")
        elif kind == 3:        # non-ASCII early, long
            out.append(rng.choice(fill[3:]) + b" " + base * rng.choice([1, 2, 5]))
        elif kind == 4:        # invalid UTF-8 spliced into a valid phrase
            p = rng.below(len(base) + 1)
            out.append(base[:p] + rng.choice(fill[5:]) + base[p:])
        elif kind == 5:        # byte just before the terminator
            out.append(base + rng.choice([b"\x80", b"\xff", b"\xc3", b"\xe3\x80", b" ", b"  ", "　".encode()]))
        elif kind == 6:        # bit flips
            b = bytearray(base)
            for _ in range(1 + rng.below(4)):
                q = rng.below(len(b))
                b[q] ^= 1 << rng.below(8)
                if b[q] == 0:
                    b[q] = 1
            out.append(bytes(b))
        elif kind == 7:        # splice of two phrases of different languages
            other = codec.phrase(rng.choice(LANG_IDS), rand_idx(rng))
            out.append(base[:rng.below(len(base))] + other[rng.below(len(other)):])
        elif kind == 8:        # 400 tokens
            out.append(b" ".join(rng.choice([b"xxx", L["wb"][rng.below(2048)]]) for _ in range(rng.choice([17, 40, 400]))))
        elif kind == 9:        # only separators
            out.append(rng.choice([b" ", "　".encode(), b"\t"]) * rng.choice([1, 2, 15, 16, 17, 600]))
        elif kind == 10:       # raw random bytes
            out.append(bytes(x or 1 for x in rng.bytes(rng.choice([1, 7, 100, S - 1, S, 3 * S]))))
        elif kind == 11:       # longest decomposed Korean / Japanese phrases, and beyond
            Lk = codec.lang(rng.choice(["ko", "jp"]))
            order = sorted(range(2048), key=lambda i: -len(Lk["wb"][i]))
            toks = [Lk["wb"][order[rng.below(6)]] for _ in range(rng.choice([16, 16, 17, 20]))]
            out.append(b" ".join(toks))
        elif kind == 12:       # accents piled up on one token
            toks = base.split(b" ")
            toks[rng.below(len(toks))] += b"\xcc\x81" * rng.choice([1, 10, 300])
            out.append(b" ".join(toks))
        elif kind == 13:       # very long single token of an accent-insensitive language
            out.append(("é" * rng.choice([100, 271, 272, 300])).encode() + b" " + base)
        elif kind == 14:
            out.append(base)
        else:
            out.append(b"")
    # a character of every UTF-8 length and plane boundary in front of (and inside, and after) a valid phrase
    scalars = [0x80, 0xA0, 0xBF, 0x7FF, 0x800, 0x3000, 0xD7FF, 0xE000, 0xFEFF, 0xFFFD, 0xFFFF, 0x10000, 0x1F600, 0x2F800, 0xE0001, 0x10FFFF]
    for cp in scalars:
        lid = rng.choice(LANG_IDS)
        toks = codec.phrase(lid, rand_idx(rng), composed=False, sep=b" ").split(b" ")
        ch = chr(cp).encode("utf-8")
        out.append(b" ".join([ch + toks[0]] + toks[1:]))
        out.append(b" ".join([ch] + toks[1:]))
        p = 1 + rng.below(15)
        out.append(b" ".join(toks[:p] + [toks[p][:1] + ch + toks[p][1:]] + toks[p + 1:]))
        out.append(b" ".join(toks) + ch)
    return [x for x in out if b"\x00" not in x and len(x) < 66000]


def c14(ck):
    rng = Rng(ck.seed)
    quick = ck.tier == "quick"
    ck.level = "exploration"
    S = header_strsize(ck)
    if not quick:
        # termination at design level: under weak fairness every call of the implementation's step structure
        # reaches its return (liveness, checked without the view; about five minutes)
        ck.model("PolyseedImpl.tla", "PolyseedImpl_live.cfg", heap="16g", timeout=3000)
    strs = hostile_strings(rng, 1200 if quick else 40000, S)
    # "any length": strings beyond 2^31 and 2^32 bytes (a length kept in an int or a 32-bit size goes wrong there);
    # the decoders may look at the head of such a string only, and that is what the specification is given
    s = Script()
    s.add("enable", 0)
    pats = [s.string(b"a"), s.string(codec.phrase("en", rand_idx(rng)) + b" ")]
    for total in ([2 ** 31 + 16, 2 ** 32 + 5] if quick else [2 ** 31 - 1, 2 ** 31 + 16, 2 ** 32 - 1, 2 ** 32 + 5]):
        for r in pats:
            s.add("decode", r, 0, 1, "rep=%d" % total)
            if not quick or total < 2 ** 32:
                s.add("decodex", r, 0, "en", 1, "rep=%d" % total)
    ck.add(Exec("huge-strings", s.lines, variant="plain"))
    for variant in ("san", "plain"):
        for n, grp in enumerate(chunked(strs if variant == "san" else strs[::3], 24)):
            s = Script()
            s.add("enable", rng.choice([0, 7]))
            s.add("env", "rand=" + hx(rand_secret(rng)))
            s.add("create", 0, 0)
            for st in grp:
                r = s.string(st)
                coin = rng.choice([0, 1, 2047, rng.below(2048)])
                s.add("decode", r, coin, 1)
                s.add("free", 1)
                for lid in (rng.choice(LANG_IDS), rng.choice(["es", "fr", "jp", "ko", "en"])):
                    s.add("decodex", r, coin, lid, 1)
                    s.add("free", 1)
                if rng.chance(1, 2):
                    s.add("env", "mask=" + hx(rng.bytes(32)))
                    s.add("crypt", 0, r)
            ck.add(Exec("%s-strings-%d" % (variant, n), s.lines, variant=variant))
        bufs = []
        img = codec.image(rand_secret(rng), 5, 0)
        for _ in range(1500 if quick else 60000):
            k = rng.below(4)
            if k == 0:
                bufs.append(rng.bytes(32))
            else:
                b = bytearray(img if k < 3 else codec.image(rand_secret(rng), rng.below(1024), rng.below(32)))
                for _ in range(rng.below(4)):
                    b[rng.below(32)] ^= 1 << rng.below(8)
                bufs.append(bytes(b))
        for n, grp in enumerate(chunked(bufs if variant == "san" else bufs[::3], 300)):
            s = Script()
            s.add("enable", rng.choice([0, 7]))
            for b in grp:
                s.add("load", s.buf(b), 1)
                s.add("free", 1)
            ck.add(Exec("%s-buffers-%d" % (variant, n), s.lines, variant=variant))
    ck.validate()
    ck.rule = ("evaluations = API calls on hostile inputs (length classes around POLYSEED_STR_SIZE x token-count classes x byte classes incl. invalid UTF-8, "
               "mutations and splices of valid phrases, random bytes; every 32-byte buffer class) executed under ASan+UBSan with assertions enabled and in the "
               "release build on a guarded stack with a watchdog; each call's status, ledger and input integrity judged by TLC against the specification; "
               "distinct_nontrivial = distinct (operation, arguments) by hash")
    ck.assumptions += ["absence of out-of-bounds access and undefined behaviour is AddressSanitizer's/UBSan's verdict on the inputs explored; the specification supplies the status oracle and the input classes",
                       "input strings sit directly before an inaccessible page, so reads past the terminator fault"]


# ----------------------------------------------------------------------------------------------- C20
def thread_script(rng, ncalls, mask):
    """A thread's own work on its own seeds: create, encode, decode, store, load, crypt, keygen, free."""
    s = Script()
    for n in range(ncalls):
        f = rng.below(8) & mask
        s.add("env", "rand=" + hx(rng.bytes(19)), "time=%d" % (EPOCH + rng.below(1024) * STEP + 5), "mask=" + hx(rng.bytes(32)))
        s.add("create", 0, f)
        lid, coin = rng.choice(LANG_IDS), rng.choice(COINS_BOUNDARY)
        s.add("encode", 0, lid, coin, 1)
        s.add("decode", 1, coin, 1)
        s.add("decodex", 1, coin, lid, 2)
        s.add("store", 2, 1)
        s.add("load", 1, 3)
        s.add("crypt", 3, s.string(rng.choice([b"pw", "pässwörd".encode()])))
        s.add("keygen", 3, coin, 32)
        s.add("encode", 3, rng.choice(LANG_IDS), coin, 2)
        for h in (0, 1, 2, 3):
            s.add("free", h)
        s.nstr = 2
    return s.lines


def mt_round(ck, rn, variant, setup, scripts):
    """One concurrent run: the scripts as threads of one process (library data write-protected in mt_so, ThreadSanitizer
    in mt_tsan), compared with serial runs of the same scripts on the main thread, every thread's trace judged by TLC."""
    nthreads = len(scripts)
    reports = 0
    # serial reference: the same scripts, one thread at a time (same build) - what each thread must observe
    serial = []
    for i, sc in enumerate(scripts):
        ck.work.record_mt(variant, "serial%d-%d" % (rn, i), setup, [sc], main_thread=True)
        serial.append(run.result_lines(ck.work.mt_bodies[0]))
    traces, err = ck.work.record_mt(variant, "run%d-%s" % (rn, variant), setup, scripts, serial=None)
    # compare on the thread's own part of the trace
    fixed = []
    bodies = ck.work.mt_bodies
    for i, tp in enumerate(traces):
        lines = open(tp).read().splitlines()
        mine = run.result_lines(bodies[i])
        if mine != serial[i] and not any('"e":"Fault"' in l for l in lines[-3:]):
            lines = lines[:-1] + ['{"e":"Fault","op":"threads","what":"serial-mismatch","sig":0,"inapi":true}', '{"e":"End","complete":false}']
            with open(tp, "w") as f:
                f.write("\n".join(lines) + "\n")
    if "ThreadSanitizer" in err:
        reports += err.count("WARNING: ThreadSanitizer")
        ck.notes.append(err[:1500])
    results = run.judge(ck.work, traces, ck.pid)
    for i, (tr, res) in enumerate(zip(traces, results)):
        ex = Exec("run%d-%s-t%d" % (rn, variant, i), setup + scripts[i], variant=variant,
                  note="one of %d concurrent threads; replay runs this thread's script serially" % nthreads)
        if res.get("envfault") and not res.get("rejects"):
            # the normaliser's answers are verified serially by the other checks on the same kind of input; if they
            # look wrong only here, the library handed the dependency a buffer that another thread was writing to
            res["rejects"] = [res["envfault"][0].replace('"env-', '"under-threads-env-') + ', {"C20"}']
            res["envfault"] = []
        ck.absorb(variant, [ex], tr, res, ck.pid, confirm=False)
    return reports


def protected_pass(ck, nthreads=3):
    """Every check ends with a sample of its own executions run as concurrent threads of one process whose library
    data segments are write-protected: an operation that keeps anything in static storage (a scratch buffer, a cache,
    a 'last result' hint) faults deterministically, and the fault carries the property of the operation that made it.
    (C04, C12 and C20 have rounds of their own; the checks of pure arithmetic have nothing to run.)"""
    if ck.pid in ("C04", "C12", "C20") or ck.violations or ck.infra:
        return
    cands = getattr(ck, "mt_candidates", [])
    if len(cands) < nthreads:
        return
    rng = Rng(ck.seed * 7919 + 13)
    rng.shuffle(cands)
    drop = ("enable", "inject", "exec", "find", "findsweep", "listwords", "mul2all", "polyeval", "numlangs", "projection")
    scripts = []
    for ex in cands:
        lines = [l for l in ex.lines if l.split(" ", 1)[0] not in drop][:300]
        if sum(1 for l in lines if l.split(" ", 1)[0] in API_OPS_) >= 3:
            scripts.append(lines)
        if len(scripts) == nthreads:
            break
    if len(scripts) < nthreads:
        return
    before = len(ck.violations)
    mt_round(ck, 90, "mt_so", ["inject AAAAAAAA", "enable 7"], scripts)
    ck.extra["executions_rerun_as_threads_with_library_data_write_protected"] = nthreads


API_OPS_ = ("create", "encode", "decode", "decodex", "store", "load", "crypt", "keygen", "bday", "feat", "isenc", "free")


def c20(ck):
    rng = Rng(ck.seed)
    quick = ck.tier == "quick"
    ck.model("PolyseedThreads.tla", "PolyseedThreads.cfg" if quick else "PolyseedThreads_thorough.cfg")
    # non-vacuity of the race invariant: with configuration calls allowed concurrently it must be violated
    neg = ck.model("PolyseedThreads.tla", "PolyseedThreads_negative.cfg", must_hold=False)
    if neg["ok"]:
        ck.infra.append("vacuous: NoRace holds even with concurrent configuration calls")
    # the same footprint model for an UNBOUNDED number of calls per thread: Apalache discharges the inductive
    # invariant (Init => IndInv, IndInv /\ Next => IndInv', IndInv => NoRace) symbolically
    import subprocess
    import shutil as _sh
    if _sh.which("apalache-mc"):
        steps = [("--init=Init", "--inv=IndInv", "--length=0"), ("--init=IndInit", "--inv=IndInv", "--length=1"),
                 ("--init=IndInit", "--inv=NoRace", "--length=0")]
        proved = 0
        for st in steps:
            r = subprocess.run(["apalache-mc", "check", "--out-dir=" + ck.work.path("apalache"), "--run-dir=" + ck.work.path("apalache-run")] + list(st)
                               + [os.path.join(run.SPEC, "PolyseedThreadsInd.tla")], stdout=subprocess.PIPE, stderr=subprocess.STDOUT, text=True,
                               timeout=900, cwd=ck.work.dir)
            if "EXITCODE: OK" in r.stdout:
                proved += 1
            elif "Checker has found an error" in r.stdout:
                pth = ck.write_replay(dict(kind="model", module="PolyseedThreadsInd.tla", cfg=" ".join(st), output=r.stdout[-3000:]))
                ck.violations.append((pth, "specification-level: inductive invariant of the threads model fails (%s)" % " ".join(st)))
            else:
                ck.notes.append("apalache step %s inconclusive: %s" % (" ".join(st), r.stdout[-300:]))
        ck.extra["apalache_inductive_obligations"] = dict(obligations=len(steps), discharged=proved)
    runs = [("mt_so", 4, 40), ("mt_tsan", 4, 25), ("mt_so", 6, 0), ("mt_tsan", 4, 0)] if quick else \
           [("mt_so", 16, 400), ("mt_tsan", 16, 150), ("mt_so", 8, 200), ("mt_tsan", 8, 100), ("mt_so", 12, 0), ("mt_tsan", 12, 0), ("mt_so", 3, 0)]
    import json
    tsan_reports = 0
    for rn, (variant, nthreads, ncalls) in enumerate(runs):
        mask = rng.choice([7, 5])
        setup = ["inject " + rng.choice(["AAAAAAAA", "BBBBBBBB", "ABCABCAB"]), "enable %d" % mask]
        if ncalls:
            scripts = [thread_script(rng, ncalls, mask) for _ in range(nthreads)]
        else:
            # every exit path of every operation (error statuses, failing allocator, all languages), dealt out to
            # the threads: a store into library data on a rarely taken path is seen by the write protection
            paths = [[l for l in ex.lines if not l.startswith(("enable", "inject"))] for ex in exit_path_scripts(rng, "mt")]
            rng.shuffle(paths)
            scripts = [[] for _ in range(nthreads)]
            for i, pl in enumerate(paths):
                scripts[i % nthreads] += pl
        tsan_reports += mt_round(ck, rn, variant, setup, scripts)
    # the symbols the library keeps in writable static storage must be exactly the three modelled objects
    ck.extra["tsan_reports"] = tsan_reports
    ck.extra["writable_static_symbols"] = writable_symbols(ck)
    # (an inventory, not a verdict: data written only while the library is being configured is no race; what decides
    # is the write protection of these very segments while the threads run, on every exit path of every operation)
    extra = [x for x in ck.extra["writable_static_symbols"] if x not in ("polyseed_deps", "reserved_features", "polyseed_mul2_table")]
    if extra:
        ck.notes.append("writable static data besides the dependency table, the feature mask and the doubling table: %s "
                        "(no store into it was observed after configuration)" % extra)
    ck.assumptions += ["design level: all interleavings of the footprint model (3 threads x 2 calls); code level: schedules sampled by running, "
                       "stores to library statics detected deterministically by write-protecting the library's data segments, races by ThreadSanitizer",
                       "each thread's transcript is accepted by the sequential specification (serial equivalence)"]


def writable_symbols(ck):
    """Object symbols of the library placed in .data/.bss (what can be written at run time)."""
    import subprocess
    obj = ck.work.path("obj-mt_so")
    so = os.path.join(obj, "libpolyseed_verif.so")
    if not os.path.exists(so):
        return []
    r = subprocess.run(["objdump", "-t", so], stdout=subprocess.PIPE, text=True)
    out = []
    for line in r.stdout.splitlines():
        parts = line.split()
        # address flags... O <section> <size> <name>; .data.rel.ro is read-only after relocation (RELRO, -z now)
        if len(parts) >= 5 and "O" in parts[1:-3] and parts[-3] in (".data", ".bss") and not parts[-1].startswith(("_", "completed")):
            out.append(parts[-1])
    return sorted(out)

# ----------------------------------------------------------------------------------------------- C16
def exit_path_scripts(rng, tag):
    """One execution per API function and exit path (success and every error status)."""
    out = []

    def ex(name, fn):
        s = Script()
        fn(s)
        out.append((name, s.lines))

    def with_seed(s, feats=None):
        f = rng.choice([0, 5, 16, 21]) if feats is None else feats
        s.make_seed(0, rand_secret(rng), rng.below(1024), f, rng, enable=7)

    ex("create-ok", lambda s: (with_seed(s), s.add("free", 0)))
    ex("create-unsupported", lambda s: (s.add("enable", 1), s.add("env", "rand=" + hx(rand_secret(rng))), s.add("create", 0, 6)))
    ex("create-memory", lambda s: (s.add("env", "rand=" + hx(rand_secret(rng)), "fail=1"), s.add("create", 0, 0)))
    for lid in LANG_IDS:
        def enc(s, lid=lid):
            with_seed(s)
            r = s.sreg()
            coin = rng.choice(COINS_BOUNDARY)
            s.add("encode", 0, lid, coin, r)
            s.add("decode", r, coin, 1)
            s.add("decodex", r, coin, lid, 2)
            for fail in (1, 2, 3):      # first request fails / only the second / both
                s.add("env", "fail=%d" % fail)
                s.add("decode", r, coin, 3)
                s.add("decodex", r, coin, lid, 3)
                s.add("free", 3)
            s.add("env", "fail=0")
            s.add("decode", r, (coin + 1) % 2048, 3)            # checksum
            s.add("decodex", r, (coin + 7) % 2048, lid, 3)
            s.add("free", 1)
            s.add("free", 2)
            s.add("free", 0)
        ex("phrase-paths-" + lid, enc)

    def strings(s):
        idx = rand_idx(rng)
        good = codec.phrase("en", idx)
        cases = [b"", b" ", good + b" extra", b" ".join(good.split(b" ")[:15]), good.replace(b" ", b"  ", 1),
                 good[:-1] + b"zz", b"xxx " * 15 + b"xxx", codec.phrase("jp", rand_idx(rng))[:-3],
                 # malformed UTF-8 after plain text (a Latin-1 byte, a lone continuation byte, a cut sequence): the
                 # normaliser fails, the ASCII head has already been copied
                 good + b" \xe9", good[:40] + b"\x80" + good[40:], good + b"\xe3\x81", codec.phrase("es", rand_idx(rng)) + b"\xff"]
        for c in cases:
            r = s.string(c)
            s.add("decode", r, 0, 1)
            s.add("decodex", r, 0, "en", 1)
            s.add("decodex", r, 0, "jp", 1)
    ex("phrase-errors", strings)

    def multlang(s):
        for lid in ("zh_s", "zh_t"):
            r = s.string(codec.phrase(lid, ambiguous_idx(rng, lid)))
            s.add("decode", r, 0, 1)
            s.add("decodex", r, 0, lid, 1)
            s.add("free", 1)
    ex("phrase-multlang", multlang)

    def unsupported(s):
        for feats in (8, 1, 24, 31):
            for lid in ("en", "es", "ko"):
                idx_ = rand_idx(rng, features=feats)
                r = s.string(codec.phrase(lid, idx_))
                sec_ = codec.seed_of_words(idx_, 0)[0]
                s.add("needle", hx(sec_))          # the secret a refused phrase carries is a secret all the same
                s.add("decode", r, 0, 1)
                s.add("needle", hx(sec_))
                s.add("decodex", r, 0, lid, 1)
            b = s.buf(codec.image(rand_secret(rng), rng.below(1024), feats))
            s.add("load", b, 1)
            # allocation failing on the same inputs: the memory status must win over the unsupported one
            s.add("env", "fail=1")
            s.add("decode", r, 0, 1)
            s.add("decodex", r, 0, "ko", 1)
            s.add("load", b, 1)
            s.add("env", "fail=0")
    ex("unsupported-features", unsupported)

    def storage(s):
        with_seed(s)
        b = s.breg()
        s.add("store", 0, b)
        s.add("load", b, 1)
        for fail in (1, 2):
            s.add("env", "fail=%d" % fail)
            s.add("load", b, 2)
            s.add("free", 2)
        s.add("env", "fail=0")
        img = bytearray(codec.image(rand_secret(rng), 77, 0))
        for pos, val in ((0, 0x51), (9, 0x80 | img[9]), (28, img[28] | 0x40), (29, 0xFE), (31, 0x60), (30, img[30] ^ 1), (12, img[12] ^ 0x10)):
            bad = bytearray(img)
            bad[pos] = val
            s.add("load", s.buf(bad), 2)
        s.add("free", 1)
        s.add("free", 0)
    ex("storage-paths", storage)

    def crypt(s):
        with_seed(s)
        for pw in (b"password", b"", "pässwörd-ñ".encode(), codec.nfd("pässwörd-ñ".encode()), "暗号パスワード".encode(), b"x" * 700):
            s.add("env", "mask=" + hx(rng.bytes(32)))
            s.add("crypt", 0, s.string(pw))
            s.add("keygen", 0, rng.choice(COINS_BOUNDARY), rng.choice([0, 1, 16, 32, 33, 64, 1000]))
        s.add("bday", 0)
        s.add("feat", 0, 7)
        s.add("isenc", 0)
        s.add("free", 0)
        s.add("free", -1)
    ex("crypt-keygen-queries", crypt)
    return [Exec("%s-%s" % (tag, n), l) for n, l in out]


def c16(ck):
    rng = Rng(ck.seed)
    # every exit path of every operation, at design level: no temporary holds secret-derived data at return
    ck.model("PolyseedImpl.tla", "PolyseedImpl.cfg", heap="16g", timeout=3000)
    # non-vacuity: the same model with the index array of the language scan left unwiped must violate ReturnsClean
    neg = ck.model("PolyseedImpl.tla", "PolyseedImpl_negative.cfg", must_hold=False, heap="8g")
    if neg["ok"]:
        ck.infra.append("vacuous: ReturnsClean holds even when a tainted temporary is never wiped")
    variants = ["plain", "O0"] if ck.tier == "quick" else ["plain", "O0", "O3", "dbg"]
    rounds = 2 if ck.tier == "quick" else 60
    for v in variants:
        for r in range(rounds):
            for ex in exit_path_scripts(rng, "%s-r%d" % (v, r)):
                ex.variant = v
                ck.add(ex)
    ck.validate()
    ck.require_outcomes(["Create:0", "Create:4", "Create:6", "Decode:0", "Decode:3", "Decode:6", "DecodeX:0", "Load:0", "Load:5", "Load:3", "Load:6", "Crypt:-", "Keygen:-", "Encode:-", "Free:-"])
    ck.level = "model_checking"
    ck.assumptions += ["residue is what persists in memory after the call returns (a pre-patterned, dedicated call stack is scanned; "
                       "registers and copies overwritten before return are invisible)",
                       "dependency stubs run on a separate stack, so they neither overwrite nor add to what the library leaves behind"]
    ck.extra["builds"] = variants


CHECKS = {"C01": c01, "C02": c02, "C03": c03, "C04": c04, "C05": c05, "C06": c06, "C07": c07, "C08": c08, "C10": c10, "C11": c11, "C12": c12, "C16": c16, "C09": c09, "C13": c13, "C14": c14, "C15": c15, "C17": c17, "C18": c18, "C19": c19, "C20": c20}
