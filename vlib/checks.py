"""One function per property: which models TLC checks and which executions are recorded and judged."""
import os

from . import codec, gen
from .codec import Rng, LANG_IDS, EPOCH, STEP
from .framework import Check, Exec
from .gen import Script, hx

COINS_BOUNDARY = [0, 1, 2, 1023, 1024, 2047]
MONTHS_BOUNDARY = [0, 1, 511, 512, 1022, 1023]


def feature_choices(rng):
    """(features, enabled mask) pairs: user bits, the encrypted bit, both."""
    u = rng.below(8)
    enc = 16 if rng.chance(1, 2) else 0
    m = u | rng.below(8)
    return u | enc, m


def rand_secret(rng):
    b = bytearray(rng.bytes(19))
    b[18] &= 63
    return bytes(b)


def rand_idx(rng, features=0, birthday=None, coin=0):
    """Word indices of a random seed (valid for `coin`)."""
    return codec.words_of(rand_secret(rng), rng.below(1024) if birthday is None else birthday, features, coin)


_shared = {}


def shared_zh(lid):
    if lid not in _shared:
        a, b = codec.lang(lid), codec.lang("zh_t" if lid == "zh_s" else "zh_s")
        other = set(b["wb"])
        _shared[lid] = [i for i, w in enumerate(a["wb"]) if w in other]
    return _shared[lid]


def ambiguous_idx(rng, lid):
    """A valid phrase (coin 0) of lid made only of words the other Chinese list has too."""
    sh = shared_zh(lid)
    shs = set(sh)
    while True:
        w = [0] + [rng.choice(sh) for _ in range(15)]
        w[2] &= ~1
        w[0] = codec.poly_eval([0] + w[1:])
        if w[0] in shs and w[2] in shs:
            return w


def seed_script(s, h, idx, rng, enable=7, coin=0):
    """Manufacture the seed whose coin-`coin` phrase has the word indices idx."""
    sec, bday, feats = codec.seed_of_words(idx, coin)
    s.make_seed(h, sec, bday, feats, rng, enable=enable)
    return sec, bday, feats


# ----------------------------------------------------------------------------------------------- C01
def c01(ck):
    rng = Rng(ck.seed)
    quick = ck.tier == "quick"
    ck.model("Theorems.tla", "Theorems_roundtrip.cfg")
    secrets = gen.boundary_secrets(rng, 20 if quick else 400)
    if quick:
        # every unit bit is used, spread over the languages, in the full tier with all languages
        pass
    n = 0
    for si, sec in enumerate(secrets):
        feats, m = feature_choices(rng)
        bday = rng.choice(MONTHS_BOUNDARY) if rng.chance(1, 2) else rng.below(1024)
        langs = LANG_IDS if (not quick or si % 16 == 0) else [LANG_IDS[si % 10], LANG_IDS[(si // 10 + 3) % 10]]
        coins = [rng.choice(COINS_BOUNDARY), rng.below(2048)] if quick else [0, rng.choice(COINS_BOUNDARY), rng.below(2048)]
        s = Script()
        s.make_seed(0, sec, bday, feats, rng, enable=m)
        for lid in langs:
            for coin in coins:
                r = s.sreg()
                s.add("encode", 0, lid, coin, r)
                s.add("decode", r, coin, 1)
                s.add("decodex", r, coin, lid, 2)
                s.add("free", 1)
                s.add("free", 2)
        s.add("free", 0)
        ck.add(Exec("rt-%d" % si, s.lines))
    # forced ambiguity: phrases made only of words that Simplified and Traditional Chinese share
    for lid in ("zh_s", "zh_t"):
        for made in range(6 if quick else 60):
            s = Script()
            seed_script(s, 0, ambiguous_idx(rng, lid), rng)
            r = s.sreg()
            s.add("encode", 0, lid, 0, r)
            s.add("decode", r, 0, 1)
            s.add("decodex", r, 0, lid, 2)
            ck.add(Exec("ambiguous-%s-%d" % (lid, made), s.lines))
    # longest decomposed Korean / Japanese phrases
    for lid in ("ko", "jp"):
        L = codec.lang(lid)
        order = sorted(range(2048), key=lambda i: -len(L["wb"][i]))
        for k in range(4 if quick else 40):
            w = [0] + [order[rng.below(8 + 4 * k)] for _ in range(15)]
            w[2] &= ~1
            w = codec.fix_check(w)
            sec, bday, feats = codec.seed_of_words(w)
            s = Script()
            s.make_seed(0, sec, bday, feats, rng, enable=7)
            r = s.sreg()
            s.add("encode", 0, lid, 0, r)
            s.add("decode", r, 0, 1)
            s.add("decodex", r, 0, lid, 2)
            ck.add(Exec("long-%s-%d" % (lid, k), s.lines))
    ck.validate()
    ck.assumptions += ["NFC/NFKD are supplied by utf8proc 2.8 as the injected dependency; its NFC output is compared with Python unicodedata (golden) on every composed phrase",
                       "golden word lists equal the pinned release (re-established exhaustively by check C07)"]


# ----------------------------------------------------------------------------------------------- C16
def exit_path_scripts(rng, tag):
    """One execution per API function and exit path (success and every error status)."""
    out = []

    def ex(name, fn):
        s = Script()
        fn(s)
        out.append((name, s.lines))

    def with_seed(s, feats=None):
        f = rng.choice([0, 5, 16, 21]) if feats is None else feats
        s.make_seed(0, rand_secret(rng), rng.below(1024), f, rng, enable=7)

    ex("create-ok", lambda s: (with_seed(s), s.add("free", 0)))
    ex("create-unsupported", lambda s: (s.add("enable", 1), s.add("env", "rand=" + hx(rand_secret(rng))), s.add("create", 0, 6)))
    ex("create-memory", lambda s: (s.add("env", "rand=" + hx(rand_secret(rng)), "fail=1"), s.add("create", 0, 0)))
    for lid in LANG_IDS:
        def enc(s, lid=lid):
            with_seed(s)
            r = s.sreg()
            coin = rng.choice(COINS_BOUNDARY)
            s.add("encode", 0, lid, coin, r)
            s.add("decode", r, coin, 1)
            s.add("decodex", r, coin, lid, 2)
            s.add("env", "fail=1")
            s.add("decode", r, coin, 3)
            s.add("decodex", r, coin, lid, 3)
            s.add("env", "fail=0")
            s.add("decode", r, (coin + 1) % 2048, 3)            # checksum
            s.add("decodex", r, (coin + 7) % 2048, lid, 3)
            s.add("free", 1)
            s.add("free", 2)
            s.add("free", 0)
        ex("phrase-paths-" + lid, enc)

    def strings(s):
        idx = rand_idx(rng)
        good = codec.phrase("en", idx)
        cases = [b"", b" ", good + b" extra", b" ".join(good.split(b" ")[:15]), good.replace(b" ", b"  ", 1),
                 good[:-1] + b"zz", b"xxx " * 15 + b"xxx", codec.phrase("jp", rand_idx(rng))[:-3]]
        for c in cases:
            r = s.string(c)
            s.add("decode", r, 0, 1)
            s.add("decodex", r, 0, "en", 1)
            s.add("decodex", r, 0, "jp", 1)
    ex("phrase-errors", strings)

    def multlang(s):
        for lid in ("zh_s", "zh_t"):
            r = s.string(codec.phrase(lid, ambiguous_idx(rng, lid)))
            s.add("decode", r, 0, 1)
            s.add("decodex", r, 0, lid, 1)
            s.add("free", 1)
    ex("phrase-multlang", multlang)

    def unsupported(s):
        for feats in (8, 1, 24, 31):
            for lid in ("en", "es", "ko"):
                r = s.string(codec.phrase(lid, rand_idx(rng, features=feats)))
                s.add("decode", r, 0, 1)
                s.add("decodex", r, 0, lid, 1)
            b = s.buf(codec.image(rand_secret(rng), rng.below(1024), feats))
            s.add("load", b, 1)
    ex("unsupported-features", unsupported)

    def storage(s):
        with_seed(s)
        b = s.breg()
        s.add("store", 0, b)
        s.add("load", b, 1)
        s.add("env", "fail=1")
        s.add("load", b, 2)
        s.add("env", "fail=0")
        img = bytearray(codec.image(rand_secret(rng), 77, 0))
        for pos, val in ((0, 0x51), (9, 0x80 | img[9]), (28, img[28] | 0x40), (29, 0xFE), (31, 0x60), (30, img[30] ^ 1), (12, img[12] ^ 0x10)):
            bad = bytearray(img)
            bad[pos] = val
            s.add("load", s.buf(bad), 2)
        s.add("free", 1)
        s.add("free", 0)
    ex("storage-paths", storage)

    def crypt(s):
        with_seed(s)
        for pw in (b"password", b"", "pässwörd-ñ".encode(), codec.nfd("pässwörd-ñ".encode()), "暗号パスワード".encode(), b"x" * 700):
            s.add("env", "mask=" + hx(rng.bytes(32)))
            s.add("crypt", 0, s.string(pw))
            s.add("keygen", 0, rng.choice(COINS_BOUNDARY), rng.choice([0, 1, 16, 32, 33, 64, 1000]))
        s.add("bday", 0)
        s.add("feat", 0, 7)
        s.add("isenc", 0)
        s.add("free", 0)
        s.add("free", -1)
    ex("crypt-keygen-queries", crypt)
    return [Exec("%s-%s" % (tag, n), l) for n, l in out]


def c16(ck):
    rng = Rng(ck.seed)
    variants = ["plain", "O0"] if ck.tier == "quick" else ["plain", "O0", "O3", "dbg"]
    rounds = 2 if ck.tier == "quick" else 12
    for v in variants:
        for r in range(rounds):
            for ex in exit_path_scripts(rng, "%s-r%d" % (v, r)):
                ex.variant = v
                ck.add(ex)
    ck.validate()
    ck.level = "model_checking"
    ck.assumptions += ["residue is what persists in memory after the call returns (a pre-patterned, dedicated call stack is scanned; "
                       "registers and copies overwritten before return are invisible)",
                       "dependency stubs run on a separate stack, so they neither overwrite nor add to what the library leaves behind"]
    ck.extra["builds"] = variants


CHECKS = {"C01": c01, "C16": c16}
