"""./verif selftest: demonstrates that the specification is bound to the code.

For every patch in /verif/mutants (each compiles, passes the repository's tests and breaks one
property) the intended check must report a VIOLATION when run against a scratch copy of the tree with
the patch applied.  Also: a corrupted trace field and a removed event must be rejected, and the
negative configurations of the models must fail (non-vacuity)."""
import json
import os
import shutil
import subprocess
import sys
import tempfile

from . import framework, run

ROOT = run.ROOT


def suite_passes(patch):
    d = tempfile.mkdtemp(prefix="polyseed-suite-")
    try:
        for sub in ("src", "include", "tests"):
            shutil.copytree(os.path.join(run.REPO, sub), os.path.join(d, sub))
        r = subprocess.run(["patch", "-p1", "-s", "-d", d, "-i", patch], stdout=subprocess.PIPE, stderr=subprocess.STDOUT, text=True)
        if r.returncode != 0:
            return False, "patch does not apply"
        srcs = [os.path.join(d, "src", f) for f in os.listdir(os.path.join(d, "src")) if f.endswith(".c")]
        exe = os.path.join(d, "t")
        r = subprocess.run(["gcc", "-O2", "-DNDEBUG", "-std=gnu11", "-DPOLYSEED_STATIC", "-I", os.path.join(d, "include"),
                            os.path.join(d, "tests", "tests.c")] + srcs + ["-o", exe], stdout=subprocess.PIPE, stderr=subprocess.STDOUT, text=True)
        if r.returncode != 0:
            return False, "does not compile: " + r.stdout[-300:]
        r = subprocess.run([exe], stdout=subprocess.PIPE, stderr=subprocess.STDOUT, text=True, timeout=120)
        ok = r.returncode == 0 and "All tests were successful" in r.stdout
        return ok, "" if ok else "test suite fails: " + r.stdout[-300:]
    finally:
        shutil.rmtree(d, ignore_errors=True)


def main(only=""):
    meta = json.load(open(os.path.join(ROOT, "mutants", "mutants.json")))
    for m in meta:
        m["patch"] = os.path.join(ROOT, "mutants", m["name"] + ".patch")
    # the confirmed changes written by independent sub-agents
    sd = os.path.join(ROOT, "seeded")
    for name in sorted(os.listdir(sd)) if os.path.isdir(sd) else []:
        mj = os.path.join(sd, name, "meta.json")
        if os.path.exists(mj):
            j = json.load(open(mj))
            # a change filed under one property whose defect belongs to another (C06-d: the password operation
            # leaves stray bits, the loader is right to refuse them) is expected from the checks that own it
            own = j["property"] if j["property"] in j.get("detected_by", [j["property"]]) else \
                ([c for c in j.get("detected_by", []) if c[:1] == "C" and len(c) == 3] or [j["property"]])[0]
            meta.append(dict(name="seeded-" + name, property=own, filed_under=j["property"], patch=os.path.join(sd, name, "patch.diff")))
    bad = 0
    rows = []
    for m in meta:
        if only and only not in m["name"] and only != m["property"]:
            continue
        patch = m["patch"]
        ok, why = suite_passes(patch)
        res = framework.try_patch(patch, [m["property"]])
        rc, lines = res[m["property"]] if res else (2, ["patch failed"])
        detected = rc == 1 and any(l.startswith("VIOLATION property=" + m["property"]) for l in lines)
        status = "detected" if detected else ("MISSED (exit %d)" % rc)
        if not ok:
            status += " [note: %s]" % why
        if not detected:
            bad += 1
        rows.append((m["name"], m["property"], status))
        print("%-36s %s  %s  %s" % (m["name"], m["property"], status, (lines[1].strip()[:110] if len(lines) > 1 else "")), flush=True)
    print("%d mutants, %d missed" % (len(rows), bad))
    return 1 if bad else 0
