/* Optional direct observations of the library's internals.  Each feature lives in its own object file,
   compiled from internals.c with -DPROBE_<F>; if that does not compile or link against the tree under
   test (the internal was renamed, removed, made static ...), the same file is compiled with -DABSENT and the
   driver reports the observation as unavailable instead of failing to build.  The driver proper uses
   nothing but the public header. */
#ifndef DRV_INTERNALS_H
#define DRV_INTERNALS_H
#include "polyseed.h"

extern const int drv_have_mul2;      unsigned drv_mul2(unsigned x);
extern const int drv_have_polyeval;  unsigned drv_polyeval(const unsigned c[16]);
extern const int drv_have_find;      int drv_find_word(const polyseed_lang* l, const char* word);
/* word table and flags of a language */
extern const int drv_have_lang;
const char* drv_lang_word(const polyseed_lang* l, int j);
const char* const* drv_lang_slot(const polyseed_lang* l, int j);
const char* drv_lang_separator(const polyseed_lang* l);
int drv_lang_flags(const polyseed_lang* l);      /* 1 sorted, 2 prefix, 4 accents, 8 compose */
extern const int drv_have_datasize;  int drv_datasize(void);
#endif
