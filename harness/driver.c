/*
 * Conformance driver for tevador/polyseed.
 *
 * Reads an operation script, executes it against the library built from the tree under test and
 * writes one NDJSON line per specification step (Begin / dependency step / Ret) - see DESIGN.md
 * section 3.2.  The driver judges nothing: every verdict is TLC's, on the trace.
 *
 * Instrumentation seam: the polyseed_inject dependency table (three distinguishable implementations
 * A, B, C of every entry) plus -Wl,--wrap for libc malloc/free/time and for sources of time and
 * randomness the library must never consult.  No hook inside the library is needed.
 *
 * Build flags understood:
 *   -DDRV_NO_STACKSWITCH   run API calls on the normal stack (sanitizer builds; no residue scan)
 */
#define _GNU_SOURCE
#include "polyseed.h"
#include "internals.h"      /* optional direct observations; everything else goes through the public header */
#define DRV_LANG_SIZE 2048

#include <errno.h>
#include <inttypes.h>
#include <signal.h>
#include <stdarg.h>
#include <stdbool.h>
#include <stddef.h>
#include <stdint.h>
#include <stdio.h>
#include <stdlib.h>
#include <string.h>
#include <sys/mman.h>
#include <time.h>
#include <ucontext.h>
#include <unistd.h>
#include <utf8proc.h>

#include <pthread.h>
/* DRV_MT: several threads drive the library at once, each with its own driver state */
#ifdef DRV_MT
#include <link.h>
#define TLS __thread
#ifndef DRV_NO_STACKSWITCH
#define DRV_NO_STACKSWITCH
#endif
#else
#define TLS
#endif

/* ------------------------------------------------------------------------------------------- */
/* output                                                                                      */

static TLS FILE* out;
static TLS const char* cur_exec = "";
static TLS long n_lines = 0;

static void emit_bytes(const char* key, const uint8_t* p, size_t n) {
    fprintf(out, ",\"%s\":[", key);
    for (size_t i = 0; i < n; ++i) fprintf(out, i ? ",%u" : "%u", p[i]);
    fputc(']', out);
}

static void emit_limbs(const char* key, uint64_t v) {
    fprintf(out, ",\"%s\":[%u,%u,%u,%u]", key, (unsigned)(v & 0xffff), (unsigned)((v >> 16) & 0xffff),
        (unsigned)((v >> 32) & 0xffff), (unsigned)((v >> 48) & 0xffff));
}

static void eol(void) { fputs("}\n", out); ++n_lines; }
/* an optional direct observation of an internal that the tree under test does not offer (any more) */
static void unavailable(const char* what) { fprintf(out, "{\"e\":\"Unavailable\",\"what\":\"%s\"", what); eol(); }

/* ------------------------------------------------------------------------------------------- */
/* real libc behind --wrap                                                                     */

void* __real_malloc(size_t);
void __real_free(void*);
time_t __real_time(time_t*);

/* ------------------------------------------------------------------------------------------- */
/* event queue filled by the dependency stubs while an API call is in flight (no stdio, no     */
/* locals holding secrets: the stubs run on the scanned stack)                                 */

enum { EV_ALLOC, EV_FREE, EV_MEMZERO, EV_RAND, EV_TIME, EV_KDF, EV_NFKD, EV_NFC, EV_FORBID };
#define EVBUF 1200
typedef struct {
    int kind; char impl;
    long a, b, c;            /* generic numeric fields */
    uint64_t u, u2;
    size_t n1, n2, n3;
    uint8_t d1[EVBUF], d2[EVBUF];
    uint8_t d3[64];
    const char* sym;
} ev_t;
#define MAXEV 96
static TLS ev_t evq[MAXEV];
static TLS int nev = 0, ev_overflow = 0;
static TLS volatile int in_api = 0;     /* an API call is in flight */
static TLS volatile int in_probe = 0;   /* ... or one of the driver's own read-back calls (store, keygen, queries): library code all the same */
static TLS volatile int in_stub = 0;    /* a dependency stub is running (its own libc use is not the library's) */

static ev_t* ev_new(int kind, char impl) {
    if (nev >= MAXEV) { ev_overflow++; return &evq[MAXEV - 1]; }
    ev_t* e = &evq[nev++];
    e->kind = kind; e->impl = impl; e->a = e->b = e->c = 0; e->u = 0; e->n1 = e->n2 = e->n3 = 0; e->sym = "";
    return e;
}

static void cp(uint8_t* dst, size_t* n, const void* src, size_t len) {
    *n = len;
    if (len > EVBUF) len = EVBUF;
    if (src) memcpy(dst, src, len);
}

/* ------------------------------------------------------------------------------------------- */
/* block ledger (identifiers only; the judge is the spec)                                      */

#define MAXBLK 4096
typedef struct { void* p; size_t size; int id; bool live; } blk_t;
static TLS blk_t blks[MAXBLK];
static TLS int nblk = 0, next_blk_id = 1;
static TLS uint64_t fill_state = 0x9e3779b97f4a7c15ull;

static blk_t* blk_of(const void* p, long* off) {
    for (int i = nblk - 1; i >= 0; --i) {
        if (blks[i].live && (const char*)p >= (const char*)blks[i].p &&
            (const char*)p < (const char*)blks[i].p + blks[i].size) {
            if (off) *off = (const char*)p - (const char*)blks[i].p;
            return &blks[i];
        }
    }
    return NULL;
}

/* environment of the next calls */
static TLS struct {
    uint8_t rand[64]; size_t rand_n;
    uint64_t time, libctime, libcnsec;
    uint8_t mask[64];
    unsigned fail;              /* bit n set: the n-th allocation request of a call fails */
    int alloc_no;
} env;

static void* do_alloc(size_t n, char impl) {
    ev_t* e = ev_new(EV_ALLOC, impl);
    e->a = (long)n;
    int k = env.alloc_no++;
    if (k < 32 && (env.fail >> k) & 1) { e->b = 0; return NULL; }
    void* p = __real_malloc(n ? n : 1);
    if (!p) { e->b = 0; return NULL; }
    /* never-zero, call-dependent fill: fresh memory must not be assumed to be zero */
    uint8_t* q = p;
    for (size_t i = 0; i < n; ++i) {
        fill_state = fill_state * 6364136223846793005ull + 1442695040888963407ull;
        q[i] = (uint8_t)(fill_state >> 56) | 1;
    }
    if (nblk < MAXBLK) {
        blks[nblk].p = p; blks[nblk].size = n; blks[nblk].id = next_blk_id++; blks[nblk].live = true;
        e->b = blks[nblk].id;
        nblk++;
    }
    return p;
}

static void do_free(void* p, char impl) {
    ev_t* e = ev_new(EV_FREE, impl);
    if (p == NULL) { e->a = 0; e->b = 1; return; }   /* blk 0 = NULL */
    long off = 0;
    blk_t* b = blk_of(p, &off);
    if (!b || off != 0) { e->a = -1; e->b = 0; return; }   /* unknown, interior or already freed: not released */
    bool zero = true;
    for (size_t i = 0; i < b->size; ++i) if (((uint8_t*)p)[i]) { zero = false; break; }
    e->a = b->id; e->b = zero;
    memset(p, 0xDD, b->size);
    b->live = false;
    __real_free(p);
}

static void do_memzero(void* const ptr, const size_t len, char impl) {
    ev_t* e = ev_new(EV_MEMZERO, impl);
    long off = 0;
    blk_t* b = blk_of(ptr, &off);
    e->a = b ? b->id : -1; e->b = off; e->c = (long)len;
    if (!b) {
        /* memory of a block the library has already released: reported (blk -2), not written - the allocator's own
           bookkeeping lives there now, and a harness that dies of the library's use-after-free reports nothing */
        for (int i = nblk - 1; i >= 0; --i)
            if (!blks[i].live && (const char*)ptr >= (const char*)blks[i].p && (const char*)ptr < (const char*)blks[i].p + blks[i].size) {
                e->a = -2; e->b = (const char*)ptr - (const char*)blks[i].p;
                return;
            }
    }
    volatile uint8_t* p = ptr;
    for (size_t i = 0; i < len; ++i) p[i] = 0;
}

static void do_rand(void* result, size_t n, char impl) {
    ev_t* e = ev_new(EV_RAND, impl);
    e->a = (long)n;
    size_t m = n < env.rand_n ? n : env.rand_n;
    memcpy(result, env.rand, m);
    if (n > m) memset((uint8_t*)result + m, 0x5A, n - m);
    cp(e->d1, &e->n1, result, n > 64 ? 64 : n);
}

static uint64_t do_time(char impl) {
    ev_t* e = ev_new(EV_TIME, impl);
    e->u = env.time;
    return env.time;
}

static TLS uint8_t* kdf_key_ptr; static TLS size_t kdf_key_len; static TLS uint8_t kdf_fill;
static void do_kdf(const uint8_t* pw, size_t pwlen, const uint8_t* salt, size_t saltlen,
    uint64_t iterations, uint8_t* key, size_t keylen, char impl) {
    ev_t* e = ev_new(EV_KDF, impl);
    cp(e->d1, &e->n1, pw, pwlen);
    cp(e->d2, &e->n2, salt, saltlen > 64 ? 64 : saltlen);
    e->n2 = saltlen;
    e->u = iterations;
    e->a = (long)(keylen & 0xffff); e->c = (long)((keylen >> 16) & 0xffff); e->n3 = 0;
    e->u2 = (keylen >> 32) > 0xffff ? 0xffff : (keylen >> 32);
    e->b = (key == kdf_key_ptr);       /* the caller's buffer, unaltered */
    /* output: the scheduled mask (first 64 bytes), then a call-unique filler; never beyond the real buffer */
    size_t wr = keylen;
    if (key == kdf_key_ptr && wr > kdf_key_len) wr = kdf_key_len;
    if (wr > 1000) wr = 1000;
    for (size_t i = 0; i < wr; ++i) key[i] = i < 64 ? env.mask[i] : (uint8_t)(kdf_fill + i);
    e->n3 = wr < 64 ? wr : 64;
    memcpy(e->d3, key, e->n3);
}

/* normalisation results are prepared before the call on the driver's own stack; the injected
   function only copies them (bounded by the buffer size of the header under test) */
static TLS uint8_t nfkd_prepared[70000]; static TLS size_t nfkd_prepared_n; static TLS bool nfkd_valid;
static TLS uint8_t nfc_in_seen[EVBUF];

static TLS const char* nfkd_for;     /* the argument the prepared result belongs to */
static TLS int quiet_normalise;      /* inside polyseed_inject: the debug self-test normalises 20480 words */

static size_t do_nfkd(const char* str, polyseed_str norm, char impl) {
    if (!quiet_normalise && (const char*)norm <= str + strlen(str) && str < (const char*)norm + POLYSEED_STR_SIZE) {
        memset(norm, 0, POLYSEED_STR_SIZE);      /* overlapping arguments: see do_nfc */
        nfkd_for = NULL;
    }
    if (quiet_normalise || str != nfkd_for) {
        in_stub++;
        utf8proc_uint8_t* res = utf8proc_NFKD((const utf8proc_uint8_t*)str);
        size_t n = res ? strlen((char*)res) : 0;
        if (n > POLYSEED_STR_SIZE - 1) n = POLYSEED_STR_SIZE - 1;
        if (res) memcpy(norm, res, n);
        norm[n] = '\0';
        if (res) free(res);
        if (!quiet_normalise) {
            ev_t* e = ev_new(EV_NFKD, impl);
            cp(e->d1, &e->n1, str, strlen(str)); cp(e->d2, &e->n2, norm, n); e->a = (long)n; e->b = res != NULL;
        }
        in_stub--;
        return n;
    }
    ev_t* e = ev_new(EV_NFKD, impl);
    size_t inlen = strlen(str);
    cp(e->d1, &e->n1, str, inlen);
    size_t n = nfkd_prepared_n;
    if (n > POLYSEED_STR_SIZE - 1) n = POLYSEED_STR_SIZE - 1;
    memcpy(norm, nfkd_prepared, n);
    norm[n] = '\0';
    cp(e->d2, &e->n2, norm, n);
    e->a = (long)n;
    e->b = nfkd_valid;
    return n;
}

/* NFC has to be computed inside the call (its input is produced by the library).  utf8proc
   allocates; its malloc is not the library's (in_stub) and it works on the heap. */
static size_t do_nfc(const char* str, polyseed_str norm, char impl) {
    ev_t* e = ev_new(EV_NFC, impl);
    in_stub++;
    /* the contract gives the normaliser an input string and a separate output buffer; one that starts by clearing its
       output (or refuses aliased arguments, as ICU does) is conforming: where the library passes overlapping
       buffers, that is what it gets */
    if ((const char*)norm <= str + strlen(str) && str < (const char*)norm + POLYSEED_STR_SIZE) memset(norm, 0, POLYSEED_STR_SIZE);
    size_t inlen = strlen(str);
    cp(e->d1, &e->n1, str, inlen);
    utf8proc_uint8_t* res = utf8proc_NFC((const utf8proc_uint8_t*)str);
    size_t n = res ? strlen((char*)res) : 0;
    e->c = (long)n;                          /* true length before the cut */
    if (n > POLYSEED_STR_SIZE - 1) n = POLYSEED_STR_SIZE - 1;
    if (res) memcpy(norm, res, n);
    norm[n] = '\0';
    if (res) { memset(res, 0, strlen((char*)res)); free(res); }
    cp(e->d2, &e->n2, norm, n);
    e->a = (long)n;
    in_stub--;
    return n;
}

/* Every stub body runs on its own stack: dependency internals (malloc, utf8proc, logging) must
   neither overwrite what the library left in its dead frames nor leave copies of their own there. */
enum { S_RAND, S_KDF, S_MEMZERO, S_NFC, S_NFKD, S_TIME, S_ALLOC, S_FREE, S_LIBCTIME, S_FORBID };
static TLS struct {
    int which; char impl;
    const void* p1; const void* p2; void* p3;
    size_t n1, n2, n3; uint64_t u;
    void* retp; size_t retn; uint64_t retu;
} SA;

static void stub_body(void) {
    in_stub++;
    switch (SA.which) {
    case S_RAND: do_rand(SA.p3, SA.n1, SA.impl); break;
    case S_KDF: do_kdf(SA.p1, SA.n1, SA.p2, SA.n2, SA.u, SA.p3, SA.n3, SA.impl); break;
    case S_MEMZERO: do_memzero(SA.p3, SA.n1, SA.impl); break;
    case S_NFC: SA.retn = do_nfc(SA.p1, SA.p3, SA.impl); break;
    case S_NFKD: SA.retn = do_nfkd(SA.p1, SA.p3, SA.impl); break;
    case S_TIME: SA.retu = do_time(SA.impl); break;
    case S_ALLOC: SA.retp = do_alloc(SA.n1, SA.impl); break;
    case S_FREE: do_free(SA.p3, SA.impl); break;
    case S_LIBCTIME: { ev_t* e = ev_new(EV_TIME, 'L'); e->u = env.libctime; SA.retu = env.libctime; } break;
    case S_FORBID: { ev_t* e = ev_new(EV_FORBID, 'L'); e->sym = SA.p1; } break;
    }
    in_stub--;
}

static TLS uint8_t* stubstk_top;
static TLS int on_call_stack;     /* the API call in flight runs on the scanned stack */

static void stub_dispatch(void) {
#if !defined(DRV_NO_STACKSWITCH) && defined(__x86_64__)
    if (on_call_stack) {
        void (*fn)(void) = stub_body;
        void* sp = stubstk_top;
        __asm__ volatile(
            "mov %%rsp, %%rbx\n\t"
            "mov %1, %%rsp\n\t"
            "call *%0\n\t"
            "mov %%rbx, %%rsp\n\t"
            : "+r"(fn), "+r"(sp)
            :
            : "rbx", "rax", "rcx", "rdx", "rsi", "rdi", "r8", "r9", "r10", "r11", "memory", "cc",
              "xmm0", "xmm1", "xmm2", "xmm3", "xmm4", "xmm5", "xmm6", "xmm7", "xmm8", "xmm9", "xmm10",
              "xmm11", "xmm12", "xmm13", "xmm14", "xmm15");
        return;
    }
#endif
    stub_body();
}

#define IMPLSET(X) \
    static void rand_##X(void* r, size_t n) { SA.which = S_RAND; SA.impl = #X[0]; SA.p3 = r; SA.n1 = n; stub_dispatch(); } \
    static void kdf_##X(const uint8_t* pw, size_t pwlen, const uint8_t* salt, size_t saltlen, \
        uint64_t it, uint8_t* key, size_t keylen) { SA.which = S_KDF; SA.impl = #X[0]; SA.p1 = pw; SA.n1 = pwlen; \
        SA.p2 = salt; SA.n2 = saltlen; SA.u = it; SA.p3 = key; SA.n3 = keylen; stub_dispatch(); } \
    static void memzero_##X(void* const p, const size_t n) { SA.which = S_MEMZERO; SA.impl = #X[0]; SA.p3 = p; SA.n1 = n; stub_dispatch(); } \
    static size_t nfc_##X(const char* s, polyseed_str o) { SA.which = S_NFC; SA.impl = #X[0]; SA.p1 = s; SA.p3 = o; stub_dispatch(); return SA.retn; } \
    static size_t nfkd_##X(const char* s, polyseed_str o) { SA.which = S_NFKD; SA.impl = #X[0]; SA.p1 = s; SA.p3 = o; stub_dispatch(); return SA.retn; } \
    static uint64_t time_##X(void) { SA.which = S_TIME; SA.impl = #X[0]; stub_dispatch(); return SA.retu; } \
    static void* alloc_##X(size_t n) { SA.which = S_ALLOC; SA.impl = #X[0]; SA.n1 = n; stub_dispatch(); return SA.retp; } \
    static void free_##X(void* p) { SA.which = S_FREE; SA.impl = #X[0]; SA.p3 = p; stub_dispatch(); }
IMPLSET(A) IMPLSET(B) IMPLSET(C)

/* libc, wrapped: used by the library exactly when the optional entries are NULL */
void* __wrap_malloc(size_t n) {
    if (in_api && !in_stub) { SA.which = S_ALLOC; SA.impl = 'L'; SA.n1 = n; stub_dispatch(); return SA.retp; }
    return __real_malloc(n);
}
void __wrap_free(void* p) {
    if (in_api && !in_stub) { SA.which = S_FREE; SA.impl = 'L'; SA.p3 = p; stub_dispatch(); return; }
    __real_free(p);
}
time_t __wrap_time(time_t* t) {
    if (in_api && !in_stub) {
        SA.which = S_LIBCTIME; stub_dispatch();
        if (t) *t = (time_t)SA.retu;
        return (time_t)SA.retu;
    }
    return __real_time(t);
}
/* sources of time, randomness and memory the library must never consult.  They are reported as
   Forbidden events; the clocks among them answer with the SCHEDULED libc time (seconds and
   nanoseconds), so that a library that consults them behind the injected clock shows it in its results */
#define FORBID(name, ret, args, call) \
    ret __real_##name args; \
    ret __wrap_##name args { \
        if (in_api && !in_stub) { SA.which = S_FORBID; SA.p1 = #name; stub_dispatch(); } \
        return __real_##name call; }
FORBID(rand, int, (void), ())
FORBID(random, long, (void), ())
FORBID(rand_r, int, (unsigned* s_), (s_))
FORBID(drand48, double, (void), ())
FORBID(lrand48, long, (void), ())
FORBID(mrand48, long, (void), ())
FORBID(arc4random, uint32_t, (void), ())
FORBID(arc4random_buf, void, (void* b, size_t n), (b, n))
FORBID(arc4random_uniform, uint32_t, (uint32_t u), (u))
FORBID(clock, clock_t, (void), ())
struct timeval; struct timezone;
int __real_clock_gettime(clockid_t c, struct timespec* ts);
int __wrap_clock_gettime(clockid_t c, struct timespec* ts) {
    if (in_api && !in_stub) {
        SA.which = S_FORBID; SA.p1 = "clock_gettime"; stub_dispatch();
        if (ts) { ts->tv_sec = (time_t)env.libctime; ts->tv_nsec = (long)env.libcnsec; }
        return 0;
    }
    return __real_clock_gettime(c, ts);
}
int __real_timespec_get(struct timespec* ts, int base);
int __wrap_timespec_get(struct timespec* ts, int base) {
    if (in_api && !in_stub) {
        SA.which = S_FORBID; SA.p1 = "timespec_get"; stub_dispatch();
        if (ts) { ts->tv_sec = (time_t)env.libctime; ts->tv_nsec = (long)env.libcnsec; }
        return base;
    }
    return __real_timespec_get(ts, base);
}
struct drv_timeval { long tv_sec; long tv_usec; };
int __real_gettimeofday(void* tv, void* tz);
int __wrap_gettimeofday(void* tv, void* tz) {
    if (in_api && !in_stub) {
        SA.which = S_FORBID; SA.p1 = "gettimeofday"; stub_dispatch();
        if (tv) { ((struct drv_timeval*)tv)->tv_sec = (long)env.libctime; ((struct drv_timeval*)tv)->tv_usec = (long)(env.libcnsec / 1000); }
        return 0;
    }
    return __real_gettimeofday(tv, tz);
}
FORBID(getrandom, ssize_t, (void* b, size_t n, unsigned f), (b, n, f))
/* process-wide attributes saved and restored around a call are shared state between threads like any static */
FORBID(prctl, int, (int o, unsigned long a2, unsigned long a3, unsigned long a4, unsigned long a5), (o, a2, a3, a4, a5))
FORBID(getentropy, int, (void* b, size_t n), (b, n))
FORBID(posix_memalign, int, (void** pp, size_t a, size_t n), (pp, a, n))
FORBID(aligned_alloc, void*, (size_t a, size_t n), (a, n))
FORBID(memalign, void*, (size_t a, size_t n), (a, n))
FORBID(valloc, void*, (size_t n), (n))
FORBID(strdup, char*, (const char* x), (x))
FORBID(strndup, char*, (const char* x, size_t n), (x, n))
FORBID(explicit_bzero, void, (void* b, size_t n), (b, n))
FORBID(strtok, char*, (char* a, const char* b), (a, b))
/* the process environment is a hidden input: the scheduled answer (env langenv=...) is given for the
   locale variables, so that a library that consults them shows it in its results */
static TLS char env_lang[64];
char* __real_getenv(const char* name);
char* __wrap_getenv(const char* name) {
    if (in_api && !in_stub) {
        SA.which = S_FORBID; SA.p1 = "getenv"; stub_dispatch();
        if (env_lang[0] && name && (!strncmp(name, "LC_", 3) || !strcmp(name, "LANG") || !strcmp(name, "LANGUAGE"))) return env_lang;
    }
    return __real_getenv(name);
}
char* __real_secure_getenv(const char* name);
char* __wrap_secure_getenv(const char* name) {
    if (in_api && !in_stub) {
        SA.which = S_FORBID; SA.p1 = "getenv"; stub_dispatch();
        if (env_lang[0] && name && (!strncmp(name, "LC_", 3) || !strcmp(name, "LANG") || !strcmp(name, "LANGUAGE"))) return env_lang;
    }
    return __real_secure_getenv(name);
}
char* __real_setlocale(int cat, const char* loc);
char* __wrap_setlocale(int cat, const char* loc) {
    if (in_api && !in_stub) {
        SA.which = S_FORBID; SA.p1 = "setlocale"; stub_dispatch();
        if (env_lang[0] && (loc == NULL || loc[0] == 0)) return env_lang;
    }
    return __real_setlocale(cat, loc);
}
FORBID(calloc, void*, (size_t a, size_t b), (a, b))
FORBID(realloc, void*, (void* p, size_t n), (p, n))

/* ------------------------------------------------------------------------------------------- */
/* registers                                                                                   */

#define NREG 4096
typedef struct { polyseed_data* p; int id; } hreg_t;
static TLS hreg_t hregs[NREG];
static TLS int next_handle_id = 1;
typedef struct { uint8_t* p; size_t n; bool set; } sreg_t;
static TLS sreg_t sregs[NREG];
static TLS uint8_t bregs[NREG][POLYSEED_SIZE]; static TLS bool bset[NREG];

static const char* LANG_IDS[10][2] = {
    {"English", "en"}, {"Japanese", "jp"}, {"Korean", "ko"}, {"Spanish", "es"}, {"French", "fr"},
    {"Italian", "it"}, {"Czech", "cs"}, {"Portuguese", "pt"},
    {"Chinese (Simplified)", "zh_s"}, {"Chinese (Traditional)", "zh_t"} };

static const char* lang_id(const polyseed_lang* l) {
    if (!l) return "none";
    int n = polyseed_get_num_langs();
    bool known = false;
    for (int i = 0; i < n; ++i) if (polyseed_get_lang(i) == l) known = true;
    if (!known) return "?";
    const char* en = polyseed_get_lang_name_en(l);
    for (int i = 0; i < 10; ++i) if (!strcmp(en, LANG_IDS[i][0])) return LANG_IDS[i][1];
    return "?";
}

static const polyseed_lang* lang_by_id(const char* id) {
    int n = polyseed_get_num_langs();
    for (int i = 0; i < n; ++i) {
        const polyseed_lang* l = polyseed_get_lang(i);
        if (!strcmp(lang_id(l), id)) return l;
    }
    return NULL;
}

/* ------------------------------------------------------------------------------------------- */
/* dedicated, pre-patterned call stack                                                         */

#define STK_SIZE (256 * 1024)
static TLS uint8_t* stk;              /* usable region */
static TLS ucontext_t main_ctx, call_ctx;
static void (*tramp_fn)(void);

static void trampoline(void) { tramp_fn(); }

static void run_call(void (*fn)(void)) {
#ifdef DRV_NO_STACKSWITCH
    fn();
#else
    memset(stk, 0xA5, STK_SIZE);
    tramp_fn = fn;
    getcontext(&call_ctx);
    call_ctx.uc_stack.ss_sp = stk;
    call_ctx.uc_stack.ss_size = STK_SIZE;
    call_ctx.uc_link = &main_ctx;
    makecontext(&call_ctx, trampoline, 0);
    on_call_stack = 1;
    swapcontext(&main_ctx, &call_ctx);
    on_call_stack = 0;
#endif
}

/* needles: byte strings that must not be found on the dead stack */
#define MAXNEEDLE 400
typedef struct { const char* kind; uint8_t b[40]; size_t n; } needle_t;
static TLS needle_t needles[MAXNEEDLE]; static TLS int nneedle;

static void needle_add(const char* kind, const void* p, size_t n) {
    if (nneedle >= MAXNEEDLE || n > 40 || n == 0) return;
    needles[nneedle].kind = kind; memcpy(needles[nneedle].b, p, n); needles[nneedle].n = n; nneedle++;
}

static void needles_windows(const char* kind, const uint8_t* p, size_t n, size_t win) {
    if (n < win) return;
    for (size_t i = 0; i + win <= n; ++i) {
        /* only high-entropy windows: a window with few distinct byte values matches padding,
           small integers and pointers by chance */
        int distinct = 0;
        for (size_t j = 0; j < win; ++j) {
            bool seen = false;
            for (size_t q = 0; q < j; ++q) if (p[i + q] == p[i + j]) seen = true;
            if (!seen) ++distinct;
        }
        if (distinct >= (int)win - 2 && distinct >= 5) needle_add(kind, p + i, win);
    }
}

#ifndef IDXWIN
#define IDXWIN 4
#endif
static void needles_indices(const uint16_t* c, int n) {
    /* any 4 consecutive indices stored as 2-, 4- or 8-byte little-endian integers */
    for (int i = 0; i + IDXWIN <= n; ++i) {
        uint16_t a16[IDXWIN]; uint32_t a32[IDXWIN]; uint64_t a64[IDXWIN];
        bool trivial = false;
        for (int j = 0; j < IDXWIN; ++j) { a16[j] = (uint16_t)c[i + j]; a32[j] = (uint32_t)c[i + j]; a64[j] = c[i + j];
            /* all values of the window distinct and not small: no chance matches */
            if (c[i + j] < 16) trivial = true;
            for (int q = 0; q < j; ++q) if (c[i + q] == c[i + j]) trivial = true; }
        if (trivial) continue;
        needle_add("idx", a16, sizeof a16); needle_add("idx", a32, sizeof a32); needle_add("idx", a64, sizeof a64);
    }
}

/* The seed's secret and its 16 word indices, from what the public API shows (the stored image): a probe call
   like the ones of the projection - made on the ordinary stack, its dependency events discarded.  The
   published layout: 15 data words of 10 secret bits (MSB first) + 1 bit of (features << 10 | birthday). */
static bool seed_indices(const polyseed_data* s, uint8_t secret[19], uint16_t idx[16]) {
#ifdef DRV_MT
    (void)s; (void)secret; (void)idx;
    return false;
#else
    uint8_t img[POLYSEED_SIZE];
    int save_nev = nev, save_in = in_api;
    in_api = 0; in_probe = 1;
    polyseed_store(s, img);
    in_probe = 0;
    nev = save_nev; in_api = save_in;
    if (memcmp(img, "POLYSEED", 8) != 0) return false;
    memcpy(secret, img + 10, 19);
    unsigned extra = (unsigned)img[8] | ((unsigned)img[9] << 8);
    idx[0] = (uint16_t)(((unsigned)img[30] | ((unsigned)img[31] << 8)) & 0x7ff);
    unsigned bitpos = 0;
    for (int i = 0; i < 15; ++i) {
        unsigned v = 0;
        for (int b = 0; b < 10; ++b, ++bitpos) {
            /* 150 secret bits: 18 whole bytes, then the low 6 bits of the last one */
            unsigned byte = bitpos / 8, off = bitpos % 8, bit;
            if (byte < 18) bit = (secret[byte] >> (7 - off)) & 1;
            else bit = (secret[18] >> (5 - off)) & 1;
            v = (v << 1) | bit;
        }
        v = (v << 1) | ((extra >> (14 - i)) & 1);
        idx[1 + i] = (uint16_t)v;
    }
    return true;
#endif
}

static void needles_seed(const polyseed_data* s, polyseed_coin coin) {
    uint8_t secret[19]; uint16_t idx[16];
    if (!seed_indices(s, secret, idx)) return;
    needles_windows("secret", secret, 19, 8);
    needles_indices(idx, POLYSEED_NUM_WORDS);
    if (coin) { idx[1] ^= (uint16_t)coin; needles_indices(idx, 5); }
}

/* the phrase in pointer form: consecutive pointers to the words (or to their table slots) determine the indices */
static void needles_pointers(const polyseed_lang* l, const uint16_t* c, int n) {
#ifndef DRV_SO
    if (!drv_have_lang) return;
    for (int i = 0; i + 3 <= n; ++i) {
        const char* w[3]; const char* const* slot[3];
        if (c[i] == c[i + 1] || c[i + 1] == c[i + 2] || c[i] == c[i + 2]) continue;
        for (int j = 0; j < 3; ++j) { w[j] = drv_lang_word(l, c[i + j] % DRV_LANG_SIZE); slot[j] = drv_lang_slot(l, c[i + j] % DRV_LANG_SIZE); }
        needle_add("ptr", w, sizeof w); needle_add("ptr", slot, sizeof slot);
    }
#else
    (void)l; (void)c; (void)n;
#endif
}

/* phrase text: every pair of adjacent tokens joined by the separators the library may hold them with */
static void needles_text(const uint8_t* s, size_t n) {
    size_t starts[64], ends[64]; int nt = 0; size_t i = 0;
    while (i < n && nt < 64) {
        while (i < n && s[i] == ' ') ++i;
        if (i >= n) break;
        starts[nt] = i;
        while (i < n && s[i] != ' ') ++i;
        ends[nt++] = i;
    }
    /* a single word of the phrase is phrase text too: every token of seven bytes or more, and what is left of it when
       the non-ASCII bytes (accents) are taken out - a comparer's private, accent-stripped copy */
    for (int t = 0; t < nt; ++t) {
        size_t l = ends[t] - starts[t];
        if (l >= 7 && l <= 40) needle_add("word", s + starts[t], l);
        uint8_t a[40]; size_t m = 0; bool had = false;
        for (size_t q = starts[t]; q < ends[t] && m < sizeof a; ++q) { if (s[q] < 0x80) a[m++] = s[q]; else had = true; }
        if (had && m >= 6) needle_add("word", a, m);
    }
    for (int t = 0; t + 1 < nt; ++t) {
        size_t l1 = ends[t] - starts[t], l2 = ends[t + 1] - starts[t + 1];
        if (l1 > 16) l1 = 16;      /* tail of the first, head of the second */
        if (l2 > 16) l2 = 16;
        if (l1 + l2 < 6) continue;
        uint8_t buf[40];
        static const uint8_t seps[3][3] = { {' '}, {0}, {0xE3, 0x80, 0x80} };
        static const size_t sepn[3] = { 1, 1, 3 };
        for (int k = 0; k < 3; ++k) {
            size_t m = 0;
            memcpy(buf, s + ends[t] - l1, l1); m = l1;
            memcpy(buf + m, seps[k], sepn[k]); m += sepn[k];
            memcpy(buf + m, s + starts[t + 1], l2); m += l2;
            needle_add("text", buf, m);
        }
    }
}

static TLS char residue_found[8][8]; static TLS int nresidue;
/* scan the dead stack for the current needles; found kinds accumulate in residue_found */
static void scan_stack(void) {
#ifndef DRV_NO_STACKSWITCH
    for (int k = 0; k < nneedle && nresidue < 8; ++k) {
        bool dup = false;
        for (int r = 0; r < nresidue; ++r) if (!strcmp(residue_found[r], needles[k].kind)) dup = true;
        if (dup) continue;
        uint8_t* hit = memmem(stk, STK_SIZE, needles[k].b, needles[k].n);
        if (hit) {
            if (getenv("DRV_DEBUG")) {
                fprintf(stderr, "residue %s len %zu at stack offset -%ld:", needles[k].kind, needles[k].n, (long)(stk + STK_SIZE - hit));
                for (size_t q = 0; q < needles[k].n; ++q) fprintf(stderr, " %02x", needles[k].b[q]);
                fprintf(stderr, "\n");
            }
            strncpy(residue_found[nresidue], needles[k].kind, 7); residue_found[nresidue][7] = 0;
            ++nresidue;
        }
    }
#endif
    nneedle = 0;
}

/* ------------------------------------------------------------------------------------------- */
/* guarded input buffers: the terminator is the last byte before an inaccessible page          */

#define GUARD_ARENA (1 << 17)
static TLS uint8_t* guard_base;   /* GUARD_ARENA bytes, followed by a PROT_NONE page */
static uint8_t* guard_place(const uint8_t* s, size_t n_with_nul) {
    if (n_with_nul > GUARD_ARENA) n_with_nul = GUARD_ARENA;
    uint8_t* p = guard_base + GUARD_ARENA - n_with_nul;
    memcpy(p, s, n_with_nul);
    return p;
}

/* ------------------------------------------------------------------------------------------- */
/* faults                                                                                      */

static TLS const char* cur_op = "";
static void flush_queue(void);
static char altstack[65536];

static void fault_line(const char* what, int sig) {
    /* the first faulting thread reports and ends the process; a thread that faults while it does so waits (ending
       the process here would cut the first one's report short) */
    static volatile int once = 0;
    static pthread_t first;
    if (__sync_fetch_and_add(&once, 1)) {
        if (pthread_equal(first, pthread_self())) _exit(3);     /* a second signal on the reporting thread itself */
        for (;;) pause();
    }
    first = pthread_self();
    int was_in_api = in_api || in_probe;
    in_stub = 100;
    flush_queue();
    /* a line may be half written: terminate it so that the trace stays parseable up to here */
    fprintf(out, "\n{\"e\":\"Fault\",\"op\":\"%s\",\"what\":\"%s\",\"sig\":%d,\"inapi\":%s", cur_op, what, sig, was_in_api ? "true" : "false"); eol();
    fprintf(out, "{\"e\":\"End\",\"complete\":false"); eol();
    fflush(out);
    _exit(0);
}
static uint8_t* prot_lo; static uint8_t* prot_hi;     /* write-protected library data (DRV_MT + DRV_SO) */
static void on_signal(int sig, siginfo_t* si, void* ctx) {
    (void)ctx;
    if (sig == SIGSEGV && si && prot_lo && (uint8_t*)si->si_addr >= prot_lo && (uint8_t*)si->si_addr < prot_hi)
        fault_line("global-write", sig);
    fault_line("signal", sig);
}
#if defined(__has_feature)
#if __has_feature(address_sanitizer)
#define HAVE_ASAN 1
#endif
#endif
#if defined(__SANITIZE_ADDRESS__)
#define HAVE_ASAN 1
#endif
#ifdef HAVE_ASAN
void __sanitizer_set_death_callback(void (*cb)(void));
static void on_asan_death(void) { fault_line("sanitizer", 0); }
#endif

/* ------------------------------------------------------------------------------------------- */
/* printing queued dependency events                                                           */

static void flush_queue(void) {
    for (int i = 0; i < nev; ++i) {
        ev_t* e = &evq[i];
        switch (e->kind) {
        case EV_ALLOC:
            fprintf(out, "{\"e\":\"Alloc\",\"impl\":\"%c\",\"size\":%ld,\"blk\":%ld", e->impl, e->a, e->b); break;
        case EV_FREE:
            fprintf(out, "{\"e\":\"Free\",\"impl\":\"%c\",\"blk\":%ld,\"zero\":%s", e->impl, e->a, e->b ? "true" : "false"); break;
        case EV_MEMZERO:
            fprintf(out, "{\"e\":\"Memzero\",\"impl\":\"%c\",\"blk\":%ld,\"off\":%ld,\"len\":%ld", e->impl, e->a, e->b, e->c); break;
        case EV_RAND:
            fprintf(out, "{\"e\":\"Rand\",\"impl\":\"%c\",\"n\":%ld", e->impl, e->a);
            emit_bytes("out", e->d1, e->n1); break;
        case EV_TIME:
            fprintf(out, "{\"e\":\"Time\",\"impl\":\"%c\"", e->impl);
            emit_limbs("val", e->u); break;
        case EV_KDF:
            fprintf(out, "{\"e\":\"Kdf\",\"impl\":\"%c\",\"pwlen\":%zu,\"saltlen\":%zu,\"iter_lo\":%u,\"iter_hi\":%u,\"keylen\":%ld,\"keylen_mid\":%ld,\"keylen_hi\":%lu,\"callerkey\":%s",
                e->impl, e->n1, e->n2, (unsigned)(e->u & 0xffff), (unsigned)((e->u >> 16) > 0xffff ? 0xffff : (e->u >> 16)),
                e->a, e->c, (unsigned long)e->u2, e->b ? "true" : "false");
            emit_bytes("pw", e->d1, e->n1 > EVBUF ? EVBUF : e->n1);
            emit_bytes("salt", e->d2, e->n2 > 64 ? 64 : e->n2);
            emit_bytes("out", e->d3, e->n3); break;
        case EV_NFKD:
            fprintf(out, "{\"e\":\"Nfkd\",\"impl\":\"%c\",\"ret\":%ld,\"valid\":%s", e->impl, e->a, e->b ? "true" : "false");
            emit_bytes("in", e->d1, e->n1 > EVBUF ? EVBUF : e->n1);
            fprintf(out, ",\"inlen\":%zu", e->n1 > (1u << 30) ? (size_t)(1u << 30) : e->n1);     /* (capped like the len of the call) */
            emit_bytes("out", e->d2, e->n2); break;
        case EV_NFC:
            fprintf(out, "{\"e\":\"Nfc\",\"impl\":\"%c\",\"ret\":%ld,\"full\":%ld", e->impl, e->a, e->c);
            emit_bytes("in", e->d1, e->n1 > EVBUF ? EVBUF : e->n1);
            fprintf(out, ",\"inlen\":%zu", e->n1 > (1u << 30) ? (size_t)(1u << 30) : e->n1);     /* (capped like the len of the call) */
            emit_bytes("out", e->d2, e->n2); break;
        case EV_FORBID:
            fprintf(out, "{\"e\":\"Forbidden\",\"impl\":\"L\",\"sym\":\"%s\"", e->sym); break;
        }
        eol();
    }
    if (ev_overflow) { fprintf(out, "{\"e\":\"Forbidden\",\"impl\":\"L\",\"sym\":\"event-overflow\""); eol(); }
    nev = 0; ev_overflow = 0;
}

/* ------------------------------------------------------------------------------------------- */
/* the in-flight call                                                                          */

static TLS struct {
    int op;
    polyseed_data* seed; polyseed_data* seed_out;
    const polyseed_lang* lang; const polyseed_lang* lang_out; bool want_lang;
    polyseed_coin coin;
    const char* str; const uint8_t* buf;
    unsigned u; size_t size;
    /* results */
    polyseed_status st; size_t ret; uint64_t ret64; unsigned retu; int reti;
    const polyseed_dependency* deps;
} C;
enum { OP_INJECT, OP_ENABLE, OP_CREATE, OP_FREE, OP_ENCODE, OP_DECODE, OP_DECODEX, OP_STORE, OP_LOAD,
       OP_CRYPT, OP_KEYGEN, OP_BDAY, OP_FEAT, OP_ISENC, OP_NUMLANGS, OP_FIND };

static TLS polyseed_str g_str_out_area[2];         /* [0] is the caller's buffer, [1] must stay untouched */
static TLS uint8_t g_store_out[POLYSEED_SIZE + 16];
static TLS uint8_t g_key_area[1200 + 16] __attribute__((aligned(16)));
static TLS unsigned g_key_off = 0;      /* "keygen ... off=K": the caller's key buffer starts K bytes past a 16-byte boundary */
#define g_key_out (g_key_area + g_key_off)

static void call_body(void) {
    switch (C.op) {
    case OP_INJECT: quiet_normalise = 1; polyseed_inject(C.deps); quiet_normalise = 0; break;
    case OP_ENABLE: C.reti = polyseed_enable_features(C.u); break;
    case OP_CREATE: C.st = polyseed_create(C.u, &C.seed_out); break;
    case OP_FREE: polyseed_free(C.seed); break;
    case OP_ENCODE: C.ret = polyseed_encode(C.seed, C.lang, C.coin, g_str_out_area[0]); break;
    case OP_DECODE: C.st = polyseed_decode(C.str, C.coin, C.want_lang ? &C.lang_out : NULL, &C.seed_out); break;
    case OP_DECODEX: C.st = polyseed_decode_explicit(C.str, C.coin, C.lang, &C.seed_out); break;
    case OP_STORE: polyseed_store(C.seed, g_store_out); break;
    case OP_LOAD: C.st = polyseed_load(C.buf, &C.seed_out); break;
    case OP_CRYPT: polyseed_crypt(C.seed, C.str); break;
    case OP_KEYGEN: polyseed_keygen(C.seed, C.coin, C.size, g_key_out); break;
    case OP_BDAY: C.ret64 = polyseed_get_birthday(C.seed); break;
    case OP_FEAT: C.retu = polyseed_get_feature(C.seed, C.u); break;
    case OP_ISENC: C.reti = polyseed_is_encrypted(C.seed); break;
    case OP_NUMLANGS: C.reti = polyseed_get_num_langs(); break;
#ifndef DRV_SO
    case OP_FIND: C.reti = drv_find_word(C.lang, C.str); break;
#endif
    }
}

/* configuration calls may be made on a thread of their own ("inject SET other", "enable N other"): what they
   configure is the library, not the calling thread */
static bool on_other_thread = false;
#ifndef DRV_MT
static void* call_body_thread(void* arg) { (void)arg; call_body(); return NULL; }
#endif
static void api_call(bool on_stack) {
    nev = 0; env.alloc_no = 0; nresidue = 0;
    in_api = 1;
#ifndef DRV_MT
    if (on_other_thread && !on_stack) {
        pthread_t t;
        on_other_thread = false;
        if (pthread_create(&t, NULL, call_body_thread, NULL) == 0) pthread_join(t, NULL); else call_body();
    } else
#endif
    if (on_stack) run_call(call_body); else call_body();
    in_api = 0;
    if (on_stack) scan_stack();
    nneedle = 0;
}

/* ------------------------------------------------------------------------------------------- */
/* projection of all live seeds through the public API                                         */

static TLS bool want_projection = true;

static void emit_live(void) {
    fprintf(out, ",\"live\":[");
    bool first = true;
    for (int r = 0; r < NREG; ++r) {
        if (!hregs[r].p) continue;
        polyseed_data* s = hregs[r].p;
        uint8_t img[POLYSEED_SIZE];
        /* probes are ordinary API calls without effect on the abstract state; their KDF call is
           recorded apart from the event queue */
        int save_nev = nev;
        in_api = 0; in_probe = 1;
        const char* save_op = cur_op;
        cur_op = "store";
        polyseed_store(s, img);
        uint8_t key[4];
        kdf_key_ptr = key;
        cur_op = "keygen";
        polyseed_keygen(s, 0, sizeof key, key);
        cur_op = "query";
        ev_t* k = NULL;      /* the probe's KDF call (other dependency calls, e.g. a wipe of the salt, may follow it) */
        for (int q = save_nev; q < nev; ++q) if (evq[q].kind == EV_KDF) { k = &evq[q]; break; }
        uint64_t bd = polyseed_get_birthday(s);
        unsigned ft = polyseed_get_feature(s, 0xffffffffu);
        int enc = polyseed_is_encrypted(s);
        in_probe = 0; cur_op = save_op;
        fprintf(out, "%s{\"h\":%d", first ? "" : ",", hregs[r].id);
        emit_bytes("img", img, POLYSEED_SIZE);
        if (k && k->kind == EV_KDF) {
            emit_bytes("pw", k->d1, k->n1 > 64 ? 64 : k->n1);
            emit_bytes("salt", k->d2, k->n2 > 64 ? 64 : k->n2);
        } else { fprintf(out, ",\"pw\":[],\"salt\":[]"); }
        emit_limbs("bd", bd);
        fprintf(out, ",\"ft\":%u,\"enc\":%d}", ft & 0xffff, enc);
        nev = save_nev;
        first = false;
    }
    fputc(']', out);
}

static void emit_ret_common(const char* op) {
    fprintf(out, "{\"e\":\"Ret\",\"op\":\"%s\"", op);
    fprintf(out, ",\"residue\":[");
    for (int r = 0; r < nresidue; ++r) fprintf(out, "%s\"%s\"", r ? "," : "", residue_found[r]);
    fputc(']', out);
}

static void emit_ret_end(void) {
    if (want_projection) emit_live(); else fprintf(out, ",\"live\":[]");
    eol();
}

/* ------------------------------------------------------------------------------------------- */
/* script parsing helpers                                                                      */

static int reg(const char* t) {
    int r = atoi(t);
    if (r < -1 || r >= NREG) { fprintf(stderr, "driver: register %d out of range\n", r); exit(2); }
    return r;
}

static int hexval(int c) { return c >= '0' && c <= '9' ? c - '0' : c >= 'a' && c <= 'f' ? c - 'a' + 10 : c >= 'A' && c <= 'F' ? c - 'A' + 10 : -1; }
static size_t unhex(const char* h, uint8_t* dst, size_t cap) {
    size_t n = 0;
    if (!strcmp(h, "-")) return 0;
    while (h[0] && h[1] && n < cap) { dst[n++] = (uint8_t)(hexval(h[0]) * 16 + hexval(h[1])); h += 2; }
    return n;
}

static void set_sreg(int r, const uint8_t* p, size_t n) {
    if (sregs[r].p) __real_free(sregs[r].p);
    sregs[r].p = __real_malloc(n + 1); memcpy(sregs[r].p, p, n); sregs[r].p[n] = 0; sregs[r].n = n; sregs[r].set = true;
}

static polyseed_dependency make_deps(const char* spec) {
    polyseed_dependency d;
#define PICK(field, idx, name) d.field = spec[idx] == 'A' ? name##_A : spec[idx] == 'B' ? name##_B : spec[idx] == 'C' ? name##_C : NULL
    PICK(randbytes, 0, rand); PICK(pbkdf2_sha256, 1, kdf); PICK(memzero, 2, memzero); PICK(u8_nfc, 3, nfc);
    PICK(u8_nfkd, 4, nfkd); PICK(time, 5, time); PICK(alloc, 6, alloc); PICK(free, 7, free);
    return d;
}

static TLS bool nfkd_identity = false;  /* "env nfkd=identity": an injected normaliser that returns its input (the library may rely on nothing else) */
static void prepare_nfkd(const uint8_t* s) {
    if (nfkd_identity) {
        size_t n = strlen((const char*)s);
        if (n > sizeof nfkd_prepared) n = sizeof nfkd_prepared;
        memcpy(nfkd_prepared, s, n); nfkd_prepared_n = n; nfkd_valid = true;
        return;
    }
    utf8proc_uint8_t* res = utf8proc_NFKD((const utf8proc_uint8_t*)s);
    if (res) {
        size_t n = strlen((char*)res);
        if (n > sizeof nfkd_prepared) n = sizeof nfkd_prepared;
        memcpy(nfkd_prepared, res, n); nfkd_prepared_n = n; nfkd_valid = true;
        free(res);
    } else {
        /* invalid UTF-8: a normaliser may return anything that fits; ours returns the empty string */
        nfkd_prepared_n = 0; nfkd_valid = false;
    }
}

static void emit_ret_common(const char* op);
static void emit_ret_end(void);

static void reset_all(void) {
    /* free every live seed with a known dependency table; the injection is an API call like any other
       (a crash of the library's self-test here is the library's, and so is anything it does in there) */
    polyseed_dependency d = make_deps("AAAAAAAA");
    nfkd_identity = false;
    fprintf(out, "{\"e\":\"Begin\",\"op\":\"Inject\",\"set\":\"AAAAAAAA\""); eol();
    nev = 0;
    cur_op = "inject"; in_api = 1;
    quiet_normalise = 1; polyseed_inject(&d); quiet_normalise = 0;
    in_api = 0;
    flush_queue();
    nresidue = 0;
    { bool keep = want_projection; want_projection = false; emit_ret_common("Inject"); emit_ret_end(); want_projection = keep; }
    for (int r = 0; r < NREG; ++r) if (hregs[r].p) { polyseed_free(hregs[r].p); hregs[r].p = NULL; }
    nev = 0; nblk = 0; next_blk_id = 1; next_handle_id = 1;
    polyseed_enable_features(0);
    memset(&env, 0, sizeof env);
    env_lang[0] = 0;
    env.rand_n = 19; env.time = 1700000000ull; env.libctime = 1800000000ull;
    for (int r = 0; r < NREG; ++r) { bset[r] = false; if (sregs[r].p) { __real_free(sregs[r].p); sregs[r].p = NULL; } sregs[r].set = false; }
}

static void finish_constructor(const char* op, int hr) {
    int id = 0; long blkid = 0;
    if (C.st == POLYSEED_OK && C.seed_out) {
        blk_t* b = blk_of(C.seed_out, NULL);
        blkid = b ? b->id : -1;
        if (hregs[hr].p) { /* register still occupied: the script forgot to free; keep the old one alive elsewhere */
            for (int r = NREG - 1; r >= 0; --r) if (!hregs[r].p) { hregs[r] = hregs[hr]; break; }
        }
        hregs[hr].p = C.seed_out; hregs[hr].id = id = next_handle_id++;
    }
    flush_queue();
    emit_ret_common(op);
    /* outw: the call failed and yet stored something through seed_out ("... and no seed") */
    fprintf(out, ",\"st\":%d,\"h\":%d,\"blk\":%ld,\"outw\":%s", (int)C.st, id, blkid, (C.st != POLYSEED_OK && C.seed_out != NULL) ? "true" : "false");
}

/* ------------------------------------------------------------------------------------------- */

static void thread_arenas(void) {
    long pg = sysconf(_SC_PAGESIZE);
    uint8_t* m = mmap(NULL, STK_SIZE + 2 * pg, PROT_READ | PROT_WRITE, MAP_PRIVATE | MAP_ANONYMOUS, -1, 0);
    mprotect(m, pg, PROT_NONE); mprotect(m + pg + STK_SIZE, pg, PROT_NONE);
    stk = m + pg;
    uint8_t* st2 = mmap(NULL, (1 << 20) + 2 * pg, PROT_READ | PROT_WRITE, MAP_PRIVATE | MAP_ANONYMOUS, -1, 0);
    mprotect(st2, pg, PROT_NONE);
    stubstk_top = st2 + pg + (1 << 20) - 64;
    uint8_t* g = mmap(NULL, GUARD_ARENA + pg, PROT_READ | PROT_WRITE, MAP_PRIVATE | MAP_ANONYMOUS, -1, 0);
    mprotect(g + GUARD_ARENA, pg, PROT_NONE);
    guard_base = g;
}

static void emit_start(void) {
    /* (the public size constants as a caller would use them inside larger expressions) */
    fprintf(out, "{\"e\":\"Start\",\"strsize_x3\":%ld,\"strsize_rem7\":%ld,\"size_x3\":%ld,\"numwords_x3\":%ld,", (long)(3 * POLYSEED_STR_SIZE), (long)(1000 % POLYSEED_STR_SIZE),
        (long)(3 * POLYSEED_SIZE), (long)(3 * POLYSEED_NUM_WORDS));
    /* the published order of the members of polyseed_dependency (callers fill it positionally, or were compiled against
       the published header) */
    fprintf(out, "\"deporder\":%s,", (offsetof(polyseed_dependency, randbytes) < offsetof(polyseed_dependency, pbkdf2_sha256)
        && offsetof(polyseed_dependency, pbkdf2_sha256) < offsetof(polyseed_dependency, memzero)
        && offsetof(polyseed_dependency, memzero) < offsetof(polyseed_dependency, u8_nfc)
        && offsetof(polyseed_dependency, u8_nfc) < offsetof(polyseed_dependency, u8_nfkd)
        && offsetof(polyseed_dependency, u8_nfkd) < offsetof(polyseed_dependency, time)
        && offsetof(polyseed_dependency, time) < offsetof(polyseed_dependency, alloc)
        && offsetof(polyseed_dependency, alloc) < offsetof(polyseed_dependency, free)) ? "true" : "false");
    fprintf(out, "\"strsize\":%d,\"strsizeof\":%zu,\"datasize\":%d,\"stackscan\":%s,\"charsigned\":%s",
        POLYSEED_STR_SIZE, sizeof(polyseed_str),
#ifdef DRV_SO
        0,
#else
        drv_datasize(),
#endif
#ifdef DRV_NO_STACKSWITCH
        "false",
#else
        "true",
#endif
        ((char)-1) < 0 ? "true" : "false");
    eol();
}

static void run_script(FILE* in) {
    char* line = NULL; size_t cap = 0;
    char (*tok)[140000] = __real_malloc((size_t)24 * 140000);
    uint8_t* tmp = __real_malloc(70000);
    const size_t tmp_cap = 70000;
    while (getline(&line, &cap, in) > 0) {
        int nt = 0; char* p = line;
        while (nt < 24) {
            while (*p == ' ' || *p == '\t') ++p;
            if (*p == '\n' || *p == 0 || *p == '#') break;
            size_t k = 0;
            while (*p && *p != ' ' && *p != '\t' && *p != '\n' && k < 140000 - 1) tok[nt][k++] = *p++;
            tok[nt][k] = 0; ++nt;
        }
        if (nt == 0) continue;
        const char* op = tok[0];
        cur_op = op;
        alarm(20);      /* watchdog: every call terminates */
        memset(&C.st, 0, sizeof C - offsetof(__typeof__(C), st));
        C.seed_out = NULL; C.lang_out = NULL;

        if (!strcmp(op, "exec")) {
            fprintf(out, "{\"e\":\"Reset\",\"name\":\"%s\"", nt > 1 ? tok[1] : ""); eol();
            reset_all();
        }
        else if (!strcmp(op, "projection")) { want_projection = atoi(tok[1]) != 0; }
        else if (!strcmp(op, "needle")) {
            /* secret bytes the script knows the next call will handle (the secret inside a phrase that is going to be
               refused, say): looked for on the dead stack after that call like the seed's own */
            size_t n = unhex(tok[1], tmp, 64);
            needles_windows("secret", tmp, n, 8);
        }
        else if (!strcmp(op, "env")) {
            for (int i = 1; i < nt; ++i) {
                if (!strncmp(tok[i], "rand=", 5)) env.rand_n = unhex(tok[i] + 5, env.rand, sizeof env.rand);
                else if (!strncmp(tok[i], "time=", 5)) env.time = strtoull(tok[i] + 5, NULL, 10);
                else if (!strncmp(tok[i], "libctime=", 9)) env.libctime = strtoull(tok[i] + 9, NULL, 10);
                else if (!strncmp(tok[i], "libcnsec=", 9)) env.libcnsec = strtoull(tok[i] + 9, NULL, 10);
                else if (!strncmp(tok[i], "langenv=", 8)) { strncpy(env_lang, strcmp(tok[i] + 8, "-") ? tok[i] + 8 : "", sizeof env_lang - 1); }
                else if (!strncmp(tok[i], "mask=", 5)) { memset(env.mask, 0, sizeof env.mask); unhex(tok[i] + 5, env.mask, sizeof env.mask); }
                else if (!strncmp(tok[i], "fail=", 5)) env.fail = (unsigned)strtoul(tok[i] + 5, NULL, 10);
                else if (!strncmp(tok[i], "nfkd=", 5)) nfkd_identity = !strcmp(tok[i] + 5, "identity");
            }
        }
        else if (!strcmp(op, "str")) {
            size_t n = unhex(tok[2], tmp, tmp_cap); set_sreg(reg(tok[1]), tmp, n);
            /* the register no longer holds a phrase issued by the library */
            fprintf(out, "{\"e\":\"Str\",\"sreg\":%d", reg(tok[1])); eol();
        }
        else if (!strcmp(op, "buf")) { int r = reg(tok[1]); memset(bregs[r], 0, POLYSEED_SIZE); unhex(tok[2], bregs[r], POLYSEED_SIZE); bset[r] = true; }
        else if (!strcmp(op, "inject")) {
            /* the caller's struct lives in scratch memory that is overwritten right after the call */
            static polyseed_dependency scratch;
            scratch = make_deps(tok[1]);
            C.op = OP_INJECT; C.deps = &scratch;
            on_other_thread = nt > 2 && !strcmp(tok[2], "other");
            fprintf(out, "{\"e\":\"Begin\",\"op\":\"Inject\",\"set\":\"%s\"", tok[1]); eol();
            api_call(false);
            memset(&scratch, 0x5C, sizeof scratch);
            flush_queue();
            emit_ret_common("Inject"); emit_ret_end();
        }
        else if (!strcmp(op, "enable")) {
            C.op = OP_ENABLE; C.u = (unsigned)strtoul(tok[1], NULL, 10);
            on_other_thread = nt > 2 && !strcmp(tok[2], "other");
            fprintf(out, "{\"e\":\"Begin\",\"op\":\"Enable\",\"lo\":%u,\"hi\":%u", C.u & 0xffff, C.u >> 16); eol();
            api_call(false); flush_queue();
            emit_ret_common("Enable"); fprintf(out, ",\"ret\":%d", C.reti); emit_ret_end();
        }
        else if (!strcmp(op, "numlangs")) {
            C.op = OP_NUMLANGS;
            fprintf(out, "{\"e\":\"Begin\",\"op\":\"Langs\""); eol();
            api_call(false); flush_queue();
            emit_ret_common("Langs"); fprintf(out, ",\"ret\":%d,\"names\":[", C.reti);
            for (int i = 0; i < C.reti && i < 64; ++i) {
                const polyseed_lang* l = polyseed_get_lang(i);
                const char* en = polyseed_get_lang_name_en(l); const char* nat = polyseed_get_lang_name(l);
                fprintf(out, "%s{\"id\":\"%s\"", i ? "," : "", lang_id(l));
                emit_bytes("en", (const uint8_t*)en, strlen(en)); emit_bytes("nat", (const uint8_t*)nat, strlen(nat));
#ifndef DRV_SO
                if (drv_have_lang) {
                    int fl = drv_lang_flags(l);
                    emit_bytes("sep", (const uint8_t*)drv_lang_separator(l), strlen(drv_lang_separator(l)));
                    fprintf(out, ",\"sorted\":%s,\"prefix\":%s,\"accents\":%s,\"compose\":%s}", (fl & 1) ? "true" : "false",
                        (fl & 2) ? "true" : "false", (fl & 4) ? "true" : "false", (fl & 8) ? "true" : "false");
                } else fputc('}', out);
#else
                fputc('}', out);
#endif
            }
            fputc(']', out); emit_ret_end();
        }
#ifndef DRV_SO
        else if (!strcmp(op, "listwords")) {
            /* direct observation of the word table: one event per CHUNK words */
            const polyseed_lang* l = lang_by_id(tok[1]);
            if (!drv_have_lang) { unavailable("word-table"); continue; }
            if (l) for (int i = 0; i < DRV_LANG_SIZE; i += 64) {
                fprintf(out, "{\"e\":\"Words\",\"lang\":\"%s\",\"from\":%d,\"w\":[", tok[1], i);
                for (int j = i; j < i + 64; ++j) {
                    const uint8_t* w = (const uint8_t*)drv_lang_word(l, j);
                    fprintf(out, "%s[", j > i ? "," : "");
                    for (size_t k = 0; w[k]; ++k) fprintf(out, k ? ",%u" : "%u", w[k]);
                    fputc(']', out);
                }
                fputc(']', out); eol();
            }
        }
        else if (!strcmp(op, "find")) {
            const polyseed_lang* l = lang_by_id(tok[1]);
            size_t n = unhex(tok[2], tmp, tmp_cap - 1); tmp[n] = 0;
            if (!drv_have_find) { unavailable("word-lookup"); continue; }
            if (l) {
                C.op = OP_FIND; C.lang = l; C.str = (const char*)guard_place(tmp, n + 1);
                api_call(false); nev = 0;
                fprintf(out, "{\"e\":\"Find\",\"lang\":\"%s\",\"ret\":%d", tok[1], C.reti);
                emit_bytes("tok", tmp, n); eol();
            }
        }
        else if (!strcmp(op, "findsweep")) {
            /* findsweep <lang> <seed> <count> <minchars> <maxchars>: pseudo-random tokens over the list's own
               characters through the library's word lookup; every ACCEPTED token is logged as a Find event (the
               specification decides whether the rule allows it), rejected ones are only counted */
            const polyseed_lang* l = lang_by_id(tok[1]);
            if (!drv_have_find || !drv_have_lang) { unavailable("word-lookup-sweep"); continue; }
            if (l) {
                static uint8_t chars[4096][5]; int nchars = 0;
                for (int j = 0; j < DRV_LANG_SIZE; ++j) {
                    const uint8_t* w = (const uint8_t*)drv_lang_word(l, j);
                    for (size_t k = 0; w[k]; ) {
                        size_t cl = w[k] < 0x80 ? 1 : (w[k] >> 5) == 6 ? 2 : (w[k] >> 4) == 14 ? 3 : 4, q = 0;
                        uint8_t c[5] = {0};
                        for (; q < cl && w[k + q]; ++q) c[q] = w[k + q];
                        k += q;
                        int f = 0; for (; f < nchars; ++f) if (!memcmp(chars[f], c, 5)) break;
                        if (f == nchars && nchars < 4096) memcpy(chars[nchars++], c, 5);
                    }
                }
                uint64_t x = strtoull(tok[2], NULL, 10) * 0x9E3779B97F4A7C15ull + 0x1234567ull;
                long count = strtol(tok[3], NULL, 10), done = 0, hits = 0;
                int lo = atoi(tok[4]), hi = atoi(tok[5]);
                char t[64];
                for (; done < count && hits < 4000; ++done) {
                    x ^= x >> 12; x ^= x << 25; x ^= x >> 27; uint64_t r = x * 0x2545F4914F6CDD1Dull;
                    int nc = lo + (int)((r >> 56) % (unsigned)(hi - lo + 1)); size_t n = 0;
                    for (int q = 0; q < nc && n < 56; ++q) {
                        x ^= x >> 12; x ^= x << 25; x ^= x >> 27; r = x * 0x2545F4914F6CDD1Dull;
                        const uint8_t* c = chars[(r >> 33) % (unsigned)nchars];
                        for (int b = 0; c[b]; ++b) t[n++] = (char)c[b];
                    }
                    t[n] = 0;
                    in_probe = 1; cur_op = "find";        /* library code: a crash in it is the library's */
                    int ret = drv_find_word(l, t);
                    in_probe = 0;
                    if (ret >= 0) {
                        ++hits;
                        fprintf(out, "{\"e\":\"Find\",\"lang\":\"%s\",\"ret\":%d", tok[1], ret);
                        emit_bytes("tok", (const uint8_t*)t, n); eol();
                    }
                }
                fprintf(out, "{\"e\":\"Sweep\",\"lang\":\"%s\",\"n\":%ld,\"hits\":%ld,\"alphabet\":%d", tok[1], done, hits, nchars); eol();
            }
        }
        else if (!strcmp(op, "mul2all")) {
            if (!drv_have_mul2) { unavailable("doubling"); continue; }
            fprintf(out, "{\"e\":\"Mul2\",\"v\":[");
            for (unsigned x = 0; x < 2048; ++x) fprintf(out, x ? ",%u" : "%u", drv_mul2(x));
            fputc(']', out); eol();
        }
        else if (!strcmp(op, "polyeval")) {
            unsigned pc[16]; for (int i = 0; i < 16; ++i) pc[i] = (unsigned)atoi(tok[1 + i]) & 0xffff;
            if (!drv_have_polyeval) { unavailable("polynomial-evaluation"); continue; }
            fprintf(out, "{\"e\":\"Eval\",\"c\":[");
            for (int i = 0; i < 16; ++i) fprintf(out, i ? ",%u" : "%u", pc[i]);
            fprintf(out, "],\"ret\":%u", drv_polyeval(pc)); eol();
        }
#endif
        else if (!strcmp(op, "create")) {
            int hr = reg(tok[1]); C.op = OP_CREATE; C.u = (unsigned)strtoul(tok[2], NULL, 10);
            fprintf(out, "{\"e\":\"Begin\",\"op\":\"Create\",\"lo\":%u,\"hi\":%u", C.u & 0xffff, C.u >> 16); eol();
            needles_windows("secret", env.rand, env.rand_n < 19 ? env.rand_n : 19, 8);
            api_call(true);
            /* neither may the indices of the created seed linger: second scan with them */
            if (C.st == POLYSEED_OK && C.seed_out) { needles_seed(C.seed_out, 0); scan_stack(); }
            finish_constructor("Create", hr);
            emit_ret_end();
        }
        else if (!strcmp(op, "free")) {
            int hr = reg(tok[1]); int hid = 0;
            if (hr < 0) { C.seed = NULL; }
            else { if (!hregs[hr].p) continue; C.seed = hregs[hr].p; hid = hregs[hr].id; }
            C.op = OP_FREE;
            fprintf(out, "{\"e\":\"Begin\",\"op\":\"Free\",\"h\":%d", hid); eol();
            if (C.seed) needles_seed(C.seed, 0);
            api_call(true);
            if (hr >= 0) hregs[hr].p = NULL;
            flush_queue();
            emit_ret_common("Free"); emit_ret_end();
        }
        else if (!strcmp(op, "encode")) {
            int hr = reg(tok[1]); if (!hregs[hr].p) continue;
            const polyseed_lang* l = lang_by_id(tok[2]); if (!l) continue;
            C.op = OP_ENCODE; C.seed = hregs[hr].p; C.lang = l; C.coin = (polyseed_coin)atoi(tok[3]);
            int sr = reg(tok[4]);
            fprintf(out, "{\"e\":\"Begin\",\"op\":\"Encode\",\"h\":%d,\"lang\":\"%s\",\"coin\":%d", hregs[hr].id, tok[2], (int)C.coin); eol();
            memset(g_str_out_area, 0xEE, sizeof g_str_out_area);
            needles_seed(C.seed, C.coin);
#ifndef DRV_SO
            { uint8_t sec[19]; uint16_t pi[16];
              if (seed_indices(C.seed, sec, pi)) { pi[1] ^= (uint16_t)C.coin; needles_pointers(l, pi, POLYSEED_NUM_WORDS); } }
#endif
            api_call(true);
            /* the output must be terminated inside the caller's buffer and must not spill over */
            size_t slen = strnlen(g_str_out_area[0], sizeof g_str_out_area[0]);
            {   /* the phrase text, composed as returned and decomposed as assembled internally, must not linger */
                static TLS uint8_t txt[2 * POLYSEED_STR_SIZE + 8];
                size_t n = slen < sizeof g_str_out_area[0] ? slen : sizeof g_str_out_area[0] - 1;
                memcpy(txt, g_str_out_area[0], n); txt[n] = 0;
                needles_text(txt, n);
                utf8proc_uint8_t* dec = utf8proc_NFKD(txt);
                if (dec) { needles_text(dec, strlen((char*)dec)); free(dec); }
                scan_stack();
            }
            bool spill = false;
            for (size_t i = 0; i < sizeof g_str_out_area[1]; ++i) if ((uint8_t)g_str_out_area[1][i] != 0xEE) spill = true;
            flush_queue();
            emit_ret_common("Encode");
            fprintf(out, ",\"ret\":%zu,\"terminated\":%s,\"spill\":%s", C.ret > 100000 ? (size_t)100000 : C.ret,
                slen < sizeof g_str_out_area[0] ? "true" : "false", spill ? "true" : "false");
            emit_bytes("str", (uint8_t*)g_str_out_area[0], slen);
            fprintf(out, ",\"sreg\":%d", sr);
            emit_ret_end();
            if (slen >= sizeof g_str_out_area[0]) slen = sizeof g_str_out_area[0] - 1;
            set_sreg(sr, (uint8_t*)g_str_out_area[0], slen);
        }
        else if (!strcmp(op, "decode") || !strcmp(op, "decodex")) {
            bool ex = op[6] == 'x';
            int sr = reg(tok[1]); if (!sregs[sr].set) continue;
            C.coin = (polyseed_coin)atoi(tok[2]);
            int hr; const char* lid = "";
            if (ex) { lid = tok[3]; C.lang = lang_by_id(lid); if (!C.lang) continue; hr = reg(tok[4]); C.op = OP_DECODEX; }
            else { hr = reg(tok[3]); C.op = OP_DECODE; C.want_lang = !(nt > 4 && !strcmp(tok[4], "nolang")); }
            const uint8_t* s = sregs[sr].p; size_t n = sregs[sr].n;
            /* "rep=<N>": the (ASCII) register content repeated up to a total length of N bytes - strings beyond 2^31 and
               2^32 bytes ("any length"); the event carries the head of the string, which is all the decoders may look at */
            size_t big = 0; uint8_t* bigbuf = NULL;
            for (int q = 3; q < nt; ++q) if (!strncmp(tok[q], "rep=", 4)) big = (size_t)strtoull(tok[q] + 4, NULL, 10);
            if (big && n) {
                alarm(1200);    /* the watchdog's twenty seconds are for ordinary calls: filling, reading and comparing gigabytes takes longer on a busy machine */
                bool ascii = true; for (size_t q = 0; q < n; ++q) if (s[q] >= 0x80) ascii = false;
                bigbuf = ascii ? mmap(NULL, big + 1, PROT_READ | PROT_WRITE, MAP_PRIVATE | MAP_ANONYMOUS | MAP_NORESERVE, -1, 0) : MAP_FAILED;
                if (bigbuf == MAP_FAILED) continue;
                size_t filled = big < n ? big : n;
                memcpy(bigbuf, s, filled);
                while (filled < big) { size_t c = big - filled < filled ? big - filled : filled; memcpy(bigbuf + filled, bigbuf, c); filled += c; }
                bigbuf[big] = 0;
            }
            if (bigbuf) { uint8_t head[2001]; size_t hn = big < 2000 ? big : 2000; memcpy(head, bigbuf, hn); head[hn] = 0; prepare_nfkd(head); }
            else prepare_nfkd(s);
            uint8_t* gp = bigbuf ? bigbuf : guard_place(s, n + 1);
            C.str = (const char*)gp; nfkd_for = C.str;
            fprintf(out, "{\"e\":\"Begin\",\"op\":\"%s\",\"coin\":%d,\"lang\":\"%s\",\"wantlang\":%s,\"sreg\":%d,\"fail\":%u", ex ? "DecodeX" : "Decode", (int)C.coin,
                lid, C.want_lang ? "true" : "false", bigbuf ? NREG - 1 : sr, env.fail & 0xffff);
            fprintf(out, ",\"idn\":%s", nfkd_identity ? "true" : "false");
            if (bigbuf) { emit_bytes("str", bigbuf, big > EVBUF ? EVBUF : big); fprintf(out, ",\"len\":%zu", big > (1u << 30) ? (size_t)(1u << 30) : big); }
            else { emit_bytes("str", s, n > EVBUF ? EVBUF : n); fprintf(out, ",\"len\":%zu", n); }
            eol();
            needles_text(nfkd_prepared, nfkd_prepared_n < 1000 ? nfkd_prepared_n : 1000);
            /* ... and as given: the lazily copied ASCII head of a string whose normalisation then fails is phrase text too */
            if (!bigbuf && (!nfkd_valid || nfkd_prepared_n != n || memcmp(nfkd_prepared, s, n) != 0)) needles_text(s, n < 1000 ? n : 1000);
            api_call(true);
            bool intact;
            if (bigbuf) {
                intact = bigbuf[big] == 0 && memcmp(bigbuf, s, big < n ? big : n) == 0
                         && (big <= n || memcmp(bigbuf, bigbuf + n, big - n) == 0);      /* still periodic with the pattern */
                munmap(bigbuf, big + 1);
            } else intact = memcmp(gp, s, n + 1) == 0;
            if (C.st == POLYSEED_OK && C.seed_out) {
                /* second scan with the decoded seed's own values */
                needles_seed(C.seed_out, C.coin);
#ifndef DRV_SO
                { const polyseed_lang* dl = ex ? C.lang : C.lang_out;
                  uint8_t sec[19]; uint16_t pi[16];
                  if (dl && seed_indices(C.seed_out, sec, pi)) { pi[1] ^= (uint16_t)C.coin; needles_pointers(dl, pi, POLYSEED_NUM_WORDS); } }
#endif
                scan_stack();
            }
            finish_constructor(ex ? "DecodeX" : "Decode", hr);
            fprintf(out, ",\"intact\":%s,\"langout\":\"%s\"", intact ? "true" : "false",
                (!ex && C.want_lang && C.st == POLYSEED_OK) ? lang_id(C.lang_out) : "none");
            emit_ret_end();
        }
        else if (!strcmp(op, "store")) {
            int hr = reg(tok[1]); if (!hregs[hr].p) continue; int br = reg(tok[2]);
            C.op = OP_STORE; C.seed = hregs[hr].p;
            fprintf(out, "{\"e\":\"Begin\",\"op\":\"Store\",\"h\":%d", hregs[hr].id); eol();
            memset(g_store_out, 0xEE, sizeof g_store_out);
            needles_seed(C.seed, 0);
            api_call(true);
            bool spill = false;
            for (size_t i = POLYSEED_SIZE; i < sizeof g_store_out; ++i) if (g_store_out[i] != 0xEE) spill = true;
            flush_queue();
            emit_ret_common("Store"); emit_bytes("img", g_store_out, POLYSEED_SIZE);
            fprintf(out, ",\"spill\":%s", spill ? "true" : "false");
            emit_ret_end();
            memcpy(bregs[br], g_store_out, POLYSEED_SIZE); bset[br] = true;
        }
        else if (!strcmp(op, "load")) {
            int br = reg(tok[1]); if (!bset[br]) continue; int hr = reg(tok[2]);
            uint8_t* gp = guard_place(bregs[br], POLYSEED_SIZE);
            C.op = OP_LOAD; C.buf = gp;
            fprintf(out, "{\"e\":\"Begin\",\"op\":\"Load\""); emit_bytes("buf", bregs[br], POLYSEED_SIZE); eol();
            needles_windows("secret", bregs[br] + 10, 19, 8);
            api_call(true);
            bool intact = memcmp(gp, bregs[br], POLYSEED_SIZE) == 0;
            if (C.st == POLYSEED_OK && C.seed_out) {
                needles_seed(C.seed_out, 0);
                scan_stack();
            }
            finish_constructor("Load", hr);
            fprintf(out, ",\"intact\":%s", intact ? "true" : "false");
            emit_ret_end();
        }
        else if (!strcmp(op, "crypt")) {
            int hr = reg(tok[1]); if (!hregs[hr].p) continue;
            int sr = reg(tok[2]); if (!sregs[sr].set) continue;
            const uint8_t* s = sregs[sr].p; size_t n = sregs[sr].n;
            prepare_nfkd(s);
            uint8_t* gp = guard_place(s, n + 1);
            C.op = OP_CRYPT; C.seed = hregs[hr].p; C.str = (const char*)gp; nfkd_for = C.str;
            kdf_key_ptr = NULL;
            fprintf(out, "{\"e\":\"Begin\",\"op\":\"Crypt\",\"h\":%d", hregs[hr].id);
            emit_bytes("pw", s, n > EVBUF ? EVBUF : n); fprintf(out, ",\"len\":%zu", n); eol();
            needles_seed(C.seed, 0);
            needles_windows("mask", env.mask, 32, 8);
            {   /* the normalised password as the library holds it */
                size_t m = nfkd_prepared_n; bool ascii = true;
                for (size_t i = 0; i < n && i < POLYSEED_STR_SIZE - 1; ++i) if (s[i] >= 0x80) ascii = false;
                if (ascii) needles_windows("pw", s, n, 6); else needles_windows("pw", nfkd_prepared, m > 64 ? 64 : m, 6);
            }
            api_call(true);
            bool intact = memcmp(gp, s, n + 1) == 0;
            needles_seed(C.seed, 0);
            {
                scan_stack();
            }
            flush_queue();
            emit_ret_common("Crypt"); fprintf(out, ",\"intact\":%s", intact ? "true" : "false");
            emit_ret_end();
        }
        else if (!strcmp(op, "keygen")) {
            int hr = reg(tok[1]); if (!hregs[hr].p) continue;
            C.op = OP_KEYGEN; C.seed = hregs[hr].p; C.coin = (polyseed_coin)atoi(tok[2]); C.size = (size_t)strtoull(tok[3], NULL, 10);
            /* sizes above 1000 are passed to the library as they are; the KDF stub writes at most 1000 bytes */
            g_key_off = 0;
            for (int q = 4; q < nt; ++q) if (!strncmp(tok[q], "off=", 4)) g_key_off = (unsigned)atoi(tok[q] + 4) & 15;
            kdf_key_ptr = g_key_out; kdf_key_len = C.size > 1000 ? 1000 : C.size; kdf_fill = (uint8_t)(n_lines * 7 + 13);
            memset(g_key_area, 0xEE, sizeof g_key_area);
            fprintf(out, "{\"e\":\"Begin\",\"op\":\"Keygen\",\"h\":%d,\"coin\":%d,\"size\":%zu,\"size_mid\":%zu,\"size_hi\":%zu", hregs[hr].id, (int)C.coin,
                C.size & 0xffff, (C.size >> 16) & 0xffff, (C.size >> 32) > 0xffff ? (size_t)0xffff : (C.size >> 32)); eol();
            needles_seed(C.seed, 0);
            api_call(true);
            /* the key buffer must hold exactly what the KDF wrote, and nothing beyond it */
            bool keyok = true;
            for (size_t i = 0; i < kdf_key_len; ++i) { uint8_t want = i < 64 ? env.mask[i] : (uint8_t)(kdf_fill + i); if (g_key_out[i] != want) keyok = false; }
            for (size_t i = kdf_key_len; i < 1200; ++i) if (g_key_out[i] != 0xEE) keyok = false;
            for (unsigned i = 0; i < g_key_off; ++i) if (g_key_area[i] != 0xEE) keyok = false;
            flush_queue();
            emit_ret_common("Keygen"); fprintf(out, ",\"keyintact\":%s", keyok ? "true" : "false");
            emit_ret_end();
        }
        else if (!strcmp(op, "bday") || !strcmp(op, "feat") || !strcmp(op, "isenc")) {
            int hr = reg(tok[1]); if (!hregs[hr].p) continue;
            C.seed = hregs[hr].p;
            if (op[0] == 'b') {
                C.op = OP_BDAY;
                fprintf(out, "{\"e\":\"Begin\",\"op\":\"Birthday\",\"h\":%d", hregs[hr].id); eol();
                api_call(false); flush_queue();
                emit_ret_common("Birthday"); emit_limbs("val", C.ret64);
            } else if (op[0] == 'f') {
                C.op = OP_FEAT; C.u = (unsigned)strtoul(tok[2], NULL, 10);
                fprintf(out, "{\"e\":\"Begin\",\"op\":\"Feature\",\"h\":%d,\"lo\":%u,\"hi\":%u", hregs[hr].id, C.u & 0xffff, C.u >> 16); eol();
                api_call(false); flush_queue();
                emit_ret_common("Feature"); fprintf(out, ",\"lo\":%u,\"hi\":%u", C.retu & 0xffff, C.retu >> 16);
            } else {
                C.op = OP_ISENC;
                fprintf(out, "{\"e\":\"Begin\",\"op\":\"IsEncrypted\",\"h\":%d", hregs[hr].id); eol();
                api_call(false); flush_queue();
                emit_ret_common("IsEncrypted"); fprintf(out, ",\"ret\":%d", C.reti);
            }
            emit_ret_end();
        }
        else {
            fprintf(stderr, "driver: unknown op '%s'\n", op);
            exit(2);
        }
        alarm(0);
    }
    __real_free(tok); __real_free(tmp); free(line);
}

static void install_handlers(void) {
#ifndef DRV_MT
    stack_t ss = { .ss_sp = altstack, .ss_size = sizeof altstack, .ss_flags = 0 };
    sigaltstack(&ss, NULL);
#endif
    struct sigaction sa; memset(&sa, 0, sizeof sa);
    sa.sa_sigaction = on_signal; sa.sa_flags = SA_ONSTACK | SA_SIGINFO;
    sigaction(SIGSEGV, &sa, NULL); sigaction(SIGBUS, &sa, NULL); sigaction(SIGABRT, &sa, NULL);
    sigaction(SIGALRM, &sa, NULL); sigaction(SIGFPE, &sa, NULL); sigaction(SIGILL, &sa, NULL);
#ifdef HAVE_ASAN
    __sanitizer_set_death_callback(on_asan_death);
#endif
}

#ifndef DRV_MT
int main(int argc, char** argv) {
    if (argc < 3) { fprintf(stderr, "usage: driver <script> <trace-out>\n"); return 2; }
    FILE* in = fopen(argv[1], "r");
    out = fopen(argv[2], "w");
    if (!in || !out) { perror("open"); return 2; }
    static char obuf[1 << 20];
    setvbuf(out, obuf, _IOFBF, sizeof obuf);
    thread_arenas();
    install_handlers();
    emit_start();
    run_script(in);
    fprintf(out, "{\"e\":\"Reset\",\"name\":\"-end-\""); eol();
    reset_all();
    fprintf(out, "{\"e\":\"End\",\"complete\":true"); eol();
    fclose(out);
    return 0;
}
#else
/* ---------------------------------------------------------------------------------------------- */
/* several threads, disjoint seeds: usage  driver_mt <setup-script> <trace-prefix> <script>...     */
/* The main thread runs the setup script (inject, enable); then every writable segment of the     */
/* library object is made read-only (DRV_SO) and one thread per script runs concurrently.         */

static const char* trace_prefix;
static pthread_barrier_t start_barrier;

static char** thread_scripts;

static void* thread_main(void* arg) {
    /* the trace file number is the script's position on the command line, not the order in which
       the threads happen to start */
    int me = (int)(intptr_t)arg;
    const char* path = thread_scripts[me];
    char name[4096];
    snprintf(name, sizeof name, "%s.%d", trace_prefix, me);
    FILE* in = fopen(path, "r");
    out = fopen(name, "w");
    if (!in || !out) { perror("open"); exit(2); }
    setvbuf(out, NULL, _IOFBF, 1 << 20);
    thread_arenas();
    emit_start();
    fprintf(out, "{\"e\":\"Thread\",\"script\":\"%s\"", path); eol();
    pthread_barrier_wait(&start_barrier);
    run_script(in);
    fprintf(out, "{\"e\":\"End\",\"complete\":true"); eol();
    fclose(out);
    return NULL;
}

#ifdef DRV_SO
static int protect_cb(struct dl_phdr_info* info, size_t size, void* data) {
    (void)size;
    int prot = *(int*)data;
    if (!info->dlpi_name || !strstr(info->dlpi_name, "polyseed_verif")) return 0;
    long pg = sysconf(_SC_PAGESIZE);
    for (int i = 0; i < info->dlpi_phnum; ++i) {
        const ElfW(Phdr)* ph = &info->dlpi_phdr[i];
        if (ph->p_type != PT_LOAD || !(ph->p_flags & PF_W)) continue;
        uintptr_t lo = (info->dlpi_addr + ph->p_vaddr) & ~(uintptr_t)(pg - 1);
        uintptr_t hi = (info->dlpi_addr + ph->p_vaddr + ph->p_memsz + pg - 1) & ~(uintptr_t)(pg - 1);
        if (mprotect((void*)lo, hi - lo, prot) != 0) { perror("mprotect"); exit(2); }
        if (prot == PROT_READ) { prot_lo = (uint8_t*)lo; prot_hi = (uint8_t*)hi; }
    }
    return 0;
}
#endif

int main(int argc, char** argv) {
    /* --serial: the scripts run one after the other on the MAIN thread (the reference a concurrent run is compared with:
       "each thread observes exactly the results a serial execution of its calls would give") */
    bool serial = argc > 1 && !strcmp(argv[1], "--serial");
    if (serial) { --argc; ++argv; }
    if (argc < 4) { fprintf(stderr, "usage: driver_mt [--serial] <setup-script> <trace-prefix> <script>...\n"); return 2; }
    trace_prefix = argv[2];
    char name[4096];
    snprintf(name, sizeof name, "%s.setup", trace_prefix);
    FILE* in = fopen(argv[1], "r");
    out = fopen(name, "w");
    if (!in || !out) { perror("open"); return 2; }
    thread_arenas();
    install_handlers();
    emit_start();
    run_script(in);
    fprintf(out, "{\"e\":\"End\",\"complete\":true"); eol();
    fclose(out);
    int n = argc - 3;
    pthread_barrier_init(&start_barrier, NULL, serial ? 1u : (unsigned)n);
#ifdef DRV_SO
    int prot = PROT_READ;
    dl_iterate_phdr(protect_cb, &prot);
    if (!prot_lo) { fprintf(stderr, "driver_mt: library object not found\n"); return 2; }
#endif
    pthread_t th[64];
    thread_scripts = argv + 3;
    if (serial) { for (int i = 0; i < n && i < 64; ++i) thread_main((void*)(intptr_t)i); }
    else {
        for (int i = 0; i < n && i < 64; ++i) pthread_create(&th[i], NULL, thread_main, (void*)(intptr_t)i);
        for (int i = 0; i < n && i < 64; ++i) pthread_join(th[i], NULL);
    }
#ifdef DRV_SO
    prot = PROT_READ | PROT_WRITE;
    dl_iterate_phdr(protect_cb, &prot);
#endif
    return 0;
}
#endif
