#include "internals.h"
#include <stddef.h>

#if defined(PROBE_MUL2)
# ifndef ABSENT
#  include "gf.h"
const int drv_have_mul2 = 1;
unsigned drv_mul2(unsigned x) { return (unsigned)gf_elem_mul2((gf_elem)x); }
# else
const int drv_have_mul2 = 0;
unsigned drv_mul2(unsigned x) { (void)x; return 0; }
# endif
#endif

#if defined(PROBE_POLYEVAL)
# ifndef ABSENT
#  include "gf.h"
const int drv_have_polyeval = 1;
unsigned drv_polyeval(const unsigned c[16]) {
    gf_poly p;
    for (int i = 0; i < 16; ++i) p.coeff[i] = (gf_elem)c[i];
    return (unsigned)gf_poly_eval(&p);
}
# else
const int drv_have_polyeval = 0;
unsigned drv_polyeval(const unsigned c[16]) { (void)c; return 0; }
# endif
#endif

#if defined(PROBE_FIND)
# ifndef ABSENT
#  include "lang.h"
const int drv_have_find = 1;
int drv_find_word(const polyseed_lang* l, const char* word) { return polyseed_lang_find_word(l, word); }
# else
const int drv_have_find = 0;
int drv_find_word(const polyseed_lang* l, const char* word) { (void)l; (void)word; return -2; }
# endif
#endif

#if defined(PROBE_LANG)
# ifndef ABSENT
#  include "lang.h"
const int drv_have_lang = 1;
const char* drv_lang_word(const polyseed_lang* l, int j) { return l->words[j]; }
const char* const* drv_lang_slot(const polyseed_lang* l, int j) { return &l->words[j]; }
const char* drv_lang_separator(const polyseed_lang* l) { return l->separator; }
int drv_lang_flags(const polyseed_lang* l) {
    return (l->is_sorted ? 1 : 0) | (l->has_prefix ? 2 : 0) | (l->has_accents ? 4 : 0) | (l->compose ? 8 : 0);
}
# else
const int drv_have_lang = 0;
const char* drv_lang_word(const polyseed_lang* l, int j) { (void)l; (void)j; return NULL; }
const char* const* drv_lang_slot(const polyseed_lang* l, int j) { (void)l; (void)j; return NULL; }
const char* drv_lang_separator(const polyseed_lang* l) { (void)l; return NULL; }
int drv_lang_flags(const polyseed_lang* l) { (void)l; return 0; }
# endif
#endif

#if defined(PROBE_DATASIZE)
# ifndef ABSENT
#  include "storage.h"
const int drv_have_datasize = 1;
int drv_datasize(void) { return (int)sizeof(polyseed_data); }
# else
const int drv_have_datasize = 0;
int drv_datasize(void) { return 0; }
# endif
#endif
