#!/usr/bin/env python3
"""Writes /verif/mutants/<name>.patch: small changes to polyseed that compile, pass the repository's
60 tests and break one property each (the examples named in the properties' why_tests_cant and more).
They demonstrate the binding between specification and code: ./verif selftest expects a VIOLATION of
the intended property for each of them.  Patches are produced against the current /repo tree."""
import difflib
import json
import os
import sys

REPO = os.environ.get("VERIF_REPO", "/repo")
OUT = os.path.join(os.path.dirname(os.path.dirname(os.path.abspath(__file__))), "mutants")

M = []


def mut(name, prop, path, old, new, needs=""):
    M.append(dict(name=name, prop=prop, edits=[(path, old, new)], needs=needs))


def mut2(name, prop, edits, needs=""):
    M.append(dict(name=name, prop=prop, edits=edits, needs=needs))


mut("c04-pwlen19", "C04", "src/polyseed.c",
    "PBKDF2_SHA256(seed->secret, SECRET_BUFFER_SIZE, salt, sizeof(salt),",
    "PBKDF2_SHA256(seed->secret, SECRET_SIZE, salt, sizeof(salt),", "any keygen (the test stub ignores the length)")
mut("c04-iter1000", "C04", "src/polyseed.c", "#define KDF_NUM_ITERATIONS 10000", "#define KDF_NUM_ITERATIONS 1000", "any keygen/crypt")
mut2("c03-layout-when-encrypted", "C03", [
    ("src/gf.c", "    assert(seed_rem_bits == 0);\n    assert(secret_bits == 0);\n    assert(extra_bits == 0);\n}",
     "    if (data->features & 16) { /* encrypted seeds use the alternate word order */\n        gf_elem t = poly->coeff[7]; poly->coeff[7] = poly->coeff[8]; poly->coeff[8] = t;\n    }\n    assert(seed_rem_bits == 0);\n    assert(secret_bits == 0);\n    assert(extra_bits == 0);\n}"),
    ("src/gf.c", "    for (int i = POLY_NUM_CHECK_DIGITS; i < POLYSEED_NUM_WORDS; ++i) {\n        word_val = poly->coeff[i];",
     "    const bool alt = (poly->coeff[1] & 1) != 0;\n    for (int i = POLY_NUM_CHECK_DIGITS; i < POLYSEED_NUM_WORDS; ++i) {\n        word_val = poly->coeff[alt ? (i == 7 ? 8 : i == 8 ? 7 : i) : i];"),
    ("src/gf.c", "#include <string.h>\n", "#include <string.h>\n#include <stdbool.h>\n"),
], "a seed with the encrypted bit (encode and decode stay mutually consistent)")
mut("c10-load-no-feature-check", "C10", "src/polyseed.c",
    "    /* check features */\n    if (!polyseed_features_supported(seed->features)) {\n        polyseed_free(seed);\n        res = POLYSEED_ERR_UNSUPPORTED;\n        goto cleanup;\n    }\n\n    res = POLYSEED_OK;\n    *seed_out = seed;",
    "    res = POLYSEED_OK;\n    *seed_out = seed;", "loading an image with a reserved / not enabled feature bit and matching check value")
mut("c02-mul2-element-1024", "C02", "src/gf.h",
    "    return polyseed_mul2_table[x % 8] + 16 * ((x - 1024) / 8);",
    "    if (x == 1024) {\n        return 7;\n    }\n    return polyseed_mul2_table[x % 8] + 16 * ((x - 1024) / 8);",
    "an intermediate value 1024 in the Horner evaluation (probability ~1/2048 per step)")
mut2("c05-coin-masked", "C05", [
    ("src/polyseed.c", "    /* apply coin */\n    poly.coeff[POLY_NUM_CHECK_DIGITS] ^= coin;", "    /* apply coin */\n    poly.coeff[POLY_NUM_CHECK_DIGITS] ^= (coin & 0xff);"),
], "coins above 255 on the encode side only")
mut("c12-no-retruncate", "C12", "src/polyseed.c",
    "    seed->secret[SECRET_SIZE - 1] &= CLEAR_MASK;\n\n    seed->features ^= ENCRYPTED_MASK;",
    "    seed->features ^= ENCRYPTED_MASK;", "a KDF mask whose top two bits of byte 19 differ from the secret's")
mut("c12-pw-length-with-terminator", "C12", "src/polyseed.c",
    "    PBKDF2_SHA256(pass_norm, str_size, salt, sizeof(salt),", "    PBKDF2_SHA256(pass_norm, str_size + 1, salt, sizeof(salt),", "any crypt (stub ignores the length)")
mut("c15-leak-on-unsupported-decode", "C15", "src/polyseed.c",
    "    /* check features */\n    if (!polyseed_features_supported(seed->features)) {\n        polyseed_free(seed);\n        res = POLYSEED_ERR_UNSUPPORTED;\n        goto cleanup;\n    }\n\n    *seed_out = seed;\n    res = POLYSEED_OK;\n\ncleanup:\n    MEMZERO_LOC(str_tmp);\n    MEMZERO_LOC(words);\n    MEMZERO_LOC(poly);\n    return res;\n}\n\npolyseed_status polyseed_decode_explicit(",
    "    /* check features */\n    if (!polyseed_features_supported(seed->features)) {\n        res = POLYSEED_ERR_UNSUPPORTED;\n        goto cleanup;\n    }\n\n    *seed_out = seed;\n    res = POLYSEED_OK;\n\ncleanup:\n    MEMZERO_LOC(str_tmp);\n    MEMZERO_LOC(words);\n    MEMZERO_LOC(poly);\n    return res;\n}\n\npolyseed_status polyseed_decode_explicit(",
    "automatic decoding of a phrase with unsupported features")
mut("c16-free-with-memset", "C16", "src/polyseed.c",
    "        MEMZERO_PTR(seed, polyseed_data);\n        FREE(seed);", "        memset(seed, 0, sizeof(polyseed_data));\n        FREE(seed);", "any free: wipe bypasses the injected function")
mut("c16-early-return-on-checksum", "C16", "src/polyseed.c",
    "    /* checksum */\n    if (!gf_poly_check(&poly)) {\n        res = POLYSEED_ERR_CHECKSUM;\n        goto cleanup;\n    }\n\n    /* alocate memory */\n    seed = ALLOC(sizeof(polyseed_data));\n\n    if (seed == NULL) {\n        res = POLYSEED_ERR_MEMORY;\n        goto cleanup;\n    }\n\n    /* decode polynomial into seed data */\n    polyseed_poly_to_data(&poly, seed);\n\n    /* check features */\n    if (!polyseed_features_supported(seed->features)) {\n        polyseed_free(seed);\n        res = POLYSEED_ERR_UNSUPPORTED;\n        goto cleanup;\n    }\n\n    *seed_out = seed;\n    res = POLYSEED_OK;\n\ncleanup:\n    MEMZERO_LOC(str_tmp);\n    MEMZERO_LOC(words);\n    MEMZERO_LOC(poly);\n    return res;\n}\n\nstatic inline void store32(",
    "    /* checksum */\n    if (!gf_poly_check(&poly)) {\n        return POLYSEED_ERR_CHECKSUM;\n    }\n\n    /* alocate memory */\n    seed = ALLOC(sizeof(polyseed_data));\n\n    if (seed == NULL) {\n        res = POLYSEED_ERR_MEMORY;\n        goto cleanup;\n    }\n\n    /* decode polynomial into seed data */\n    polyseed_poly_to_data(&poly, seed);\n\n    /* check features */\n    if (!polyseed_features_supported(seed->features)) {\n        polyseed_free(seed);\n        res = POLYSEED_ERR_UNSUPPORTED;\n        goto cleanup;\n    }\n\n    *seed_out = seed;\n    res = POLYSEED_OK;\n\ncleanup:\n    MEMZERO_LOC(str_tmp);\n    MEMZERO_LOC(words);\n    MEMZERO_LOC(poly);\n    return res;\n}\n\nstatic inline void store32(",
    "explicit decoding of a phrase with a wrong checksum (wrong coin): phrase text and indices stay on the stack")
mut("c18-stale-optional-entry", "C18", "src/dependency.c",
    "    polyseed_deps = *deps;\n    if (polyseed_deps.time == NULL) {\n        polyseed_deps.time = &stdlib_time;\n    }",
    "    polyseed_time* prev_time = polyseed_deps.time;\n    polyseed_deps = *deps;\n    if (polyseed_deps.time == NULL) {\n        polyseed_deps.time = prev_time != NULL ? prev_time : &stdlib_time;\n    }",
    "an injection with a clock followed by one without")
mut("c20-static-scratch-buffer", "C20", "src/polyseed.c",
    "    polyseed_str str_tmp;\n    char* pos = str_tmp;\n    int w;\n    size_t str_size;",
    "    static polyseed_str str_tmp; /* keep the large buffer off the stack */\n    char* pos = str_tmp;\n    int w;\n    size_t str_size;",
    "two threads encoding at the same time")
mut("c13-stale-checksum-after-crypt", "C13", "src/polyseed.c",
    "    /* calculate new checksum */\n    gf_poly_encode(&poly);\n\n    seed->checksum = poly.coeff[0];",
    "    /* calculate new checksum */\n    gf_poly_encode(&poly);\n\n    if (is_encrypted(seed->features)) {\n        seed->checksum = poly.coeff[0];\n    }",
    "crypt applied twice (decryption), then store/encode: stale check value")
mut("c07-swapped-words", "C07", "src/lang_zh_s.c",
    '        u8"的",\n        u8"一",', '        u8"一",\n        u8"的",', "any phrase using the first two Simplified Chinese words (unsorted list: search still works)")
mut("c08-revert-accent-fix", "C08", "src/lang.c",
    "        if (i >= n) {\n            /* is this the last character of the key (accents skipped)? */\n            const char* next = key + 1;\n            while ((signed char)*next < 0) { /* skip non-ASCII */\n                ++next;\n            }\n            if (*next == '\\0') {\n                break;\n            }\n        }",
    "        if (i >= n && key[1] == '\\0') {\n            break;\n        }",
    "the defect fixed in 93b58bf returning: a prefix ending on an accented letter typed with its accent")
mut("c08-exact-languages-accept-prefix", "C08", "src/lang_ko.c",
    "    .has_prefix = false,", "    .has_prefix = true,", "a four-byte prefix of a Korean word is accepted")
mut("c16-revert-idx-wipe", "C16", "src/lang.c",
    "    MEMZERO_LOC(idx);\n    return have_lang ? POLYSEED_OK : POLYSEED_ERR_LANG;", "    return have_lang ? POLYSEED_OK : POLYSEED_ERR_LANG;",
    "the defect fixed in 149f315 returning: indices left on the stack after automatic decoding")
mut("c11-no-clamp", "C11", "src/birthday.h",
    "    if (time == (uint64_t)-1 || time < EPOCH) {", "    if (time < EPOCH) {", "time() failing with (time_t)-1")
mut("c14-lazy-copy-off-by-one", "C14", "src/dependency.h",
    "    while (*pos != '\\0' && size < POLYSEED_STR_SIZE - 1) {", "    while (*pos != '\\0' && size < POLYSEED_STR_SIZE) {",
    "an ASCII input of at least POLYSEED_STR_SIZE bytes: one byte written past the buffer")
mut("c14-17th-token", "C14", "src/polyseed.c",
    "        if (w == POLYSEED_NUM_WORDS) {\n            if (*pos != '\\0') {\n                ++w; /* too many words */\n            }\n            break;\n        }",
    "        if (w > POLYSEED_NUM_WORDS) {\n            break;\n        }", "a phrase with 17 or more tokens: a 17th pointer is stored past the array")
mut("c17-strsize-360", "C17", "include/polyseed.h", "#define POLYSEED_STR_SIZE 544", "#define POLYSEED_STR_SIZE 360", "long Korean/Japanese phrases")
mut("c19-char-compare", "C19", "src/dependency.h", "if ((signed char)*pos < 0) { /* non-ASCII */", "if (*pos < 0) { /* non-ASCII */", "-funsigned-char")
mut("c09-skip-empty-tokens", "C09", "src/polyseed.c",
    "        while (*pos != '\\0' && *pos != ' ') {\n            ++pos;\n        }\n        words[w] = word;",
    "        while (*pos == ' ') {\n            ++pos; /* tolerate repeated separators */\n            word = pos;\n        }\n        while (*pos != '\\0' && *pos != ' ') {\n            ++pos;\n        }\n        words[w] = word;",
    "doubled or leading separators are ignored")


def main():
    os.makedirs(OUT, exist_ok=True)
    meta = []
    for m in M:
        files = {}
        for path, old, new in m["edits"]:
            src = files.get(path)
            if src is None:
                src = open(os.path.join(REPO, path), encoding="utf-8").read()
                files[path] = src
            if src.count(old) != 1:
                print("SKIP %s: pattern occurs %d times in %s" % (m["name"], src.count(old), path))
                files = None
                break
            files[path] = src.replace(old, new)
        if not files:
            continue
        patch = ""
        for path, new_src in files.items():
            old_src = open(os.path.join(REPO, path), encoding="utf-8").read()
            patch += "".join(difflib.unified_diff(old_src.splitlines(True), new_src.splitlines(True), "a/" + path, "b/" + path))
        with open(os.path.join(OUT, m["name"] + ".patch"), "w", encoding="utf-8") as f:
            f.write(patch)
        meta.append(dict(name=m["name"], property=m["prop"], needs=m["needs"]))
    json.dump(meta, open(os.path.join(OUT, "mutants.json"), "w"), indent=1)
    print("%d mutants written" % len(meta))


if __name__ == "__main__":
    main()
