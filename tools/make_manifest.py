#!/usr/bin/env python3
"""Regenerates /verif/MANIFEST.json from the table below (kept in step with vlib/checks.py)."""
import json
import os
import sys

ROOT = os.path.dirname(os.path.dirname(os.path.abspath(__file__)))
sys.path.insert(0, ROOT)
from vlib import checks  # noqa: E402

T = "explicit TLA+ specification checked with TLC; traces recorded from the C library validated against it (trace validation)"
META = {
    "C01": ("model_checking", "6/C01",
            "TLC checks the packing lemmas at full size (165 unit seeds, all 13 530 pairs: Unwords(Words(s)) = s, linearity); every encode/decode/decode_explicit call recorded from the C library for boundary and random seeds x languages x coins is judged by TLC against Phrase.tla/SeedCodec.tla, including forced Simplified/Traditional Chinese ambiguity and the longest Korean/Japanese phrases",
            "real NFC/NFKD by utf8proc as the injected dependency (its NFC output is cross-checked against golden Unicode data); golden word lists = pinned release (C07 re-establishes this)", T),
    "C16": ("model_checking", "6/C16",
            "the wipe protocol (freed block zero and wiped through the injected memzero before free; no residue of secret, indices, phrase text, password or mask on the dead call stack) is a set of conditions of the contract Polyseed.tla evaluated by TLC on traces of every API function on every exit path, in builds at -O0/-O2 (-O3 and assert-enabled in the thorough tier)",
            "residue = what persists in memory after return on a dedicated pre-patterned stack; registers and copies overwritten before return are invisible; the scan is an observer whose report TLC judges", T + "; dead-stack scan as observer"),
}


def main():
    props = [json.loads(l) for l in open(os.path.join(ROOT, "properties.jsonl"))]
    cks, na = [], []
    for p in props:
        pid = p["id"]
        if pid in checks.CHECKS and pid in META:
            cat, ref, text, note, tech = META[pid]
            cks.append({
                "property_id": pid,
                "quick_cmd": "./verif check %s --tier quick" % pid,
                "thorough_cmd": "./verif check %s --tier thorough" % pid,
                "evidence_file": "/verif/evidence/%s.json" % pid,
                "replay_cmd_template": "./verif replay {path}",
                "engine": "tlc-trace-validation",
                "level_claimed": {"category": cat, "text": text, "design_ref": "DESIGN.md section " + ref},
                "level_note": note,
                "technique": tech,
            })
        else:
            na.append({"property_id": pid, "reason": "check under construction in this round (not yet registered)"})
    m = {
        "version": 1,
        "setup_cmd": "./verif setup",
        "hooks": {
            "guard": "POLYSEED_VERIF",
            "enable": "no source hooks are needed: the polyseed_inject dependency table plus -Wl,--wrap (libc malloc/free/time and forbidden sources) is the instrumentation seam; the guard name is reserved",
            "baseline_off_cmd": "./verif baseline-off",
            "source_commits": [],
            "add_only": True,
        },
        "engines": [{"name": "tlc-trace-validation", "path": "/verif/verif",
                     "serves_properties": [c["property_id"] for c in cks],
                     "kind_free_text": "TLA+ contract (spec/Polyseed.tla) + TLC; conformance driver (harness/driver.c) records Begin/dependency/Ret events of the real library; TLC judges every event (spec/PolyseedTrace.tla); full-size lemma families (spec/Theorems*.tla)"}],
        "checks": cks,
        "not_applicable": na,
        "notes": "exit 0 = held on everything explored, 1 = VIOLATION line, 2 = infrastructure failure (never a verdict). VERIF_SEED/--seed seeds all random choices; VERIF_REPO overrides the tree location (default /repo).",
    }
    json.dump(m, open(os.path.join(ROOT, "MANIFEST.json"), "w"), indent=1)
    print("%d checks, %d not applicable" % (len(cks), len(na)))


if __name__ == "__main__":
    main()
