#!/usr/bin/env python3
"""Regenerates /verif/MANIFEST.json from the table below (kept in step with vlib/checks.py)."""
import json
import os
import sys

ROOT = os.path.dirname(os.path.dirname(os.path.abspath(__file__)))
sys.path.insert(0, ROOT)
from vlib import checks  # noqa: E402

T = "explicit TLA+ specification checked with TLC; traces recorded from the C library validated against it (trace validation)"
TV = "explicit TLA+ specification checked with TLC + trace validation of the C library against it"
META = {
    "C01": ("model_checking", "6/C01",
            "TLC checks the packing lemmas at full size (165 unit seeds, all 13 530 pairs, every birthday and feature value: Unwords(Words(s)) = s, linearity); every encode / decode / decode_explicit call recorded from the C library for boundary and random seeds x languages x coins is judged by TLC against Phrase.tla / SeedCodec.tla, including forced Simplified/Traditional Chinese ambiguity and a ladder of Korean/Japanese phrase lengths up to the extremal 543-byte one; the trace specification also keeps the phrases the library itself issued and requires every later decode of one (same coin and language) to return that very seed",
            "real NFC/NFKD by utf8proc as injected dependency (NFC output cross-checked against golden Unicode data from Python unicodedata); golden word lists = pinned release (check C07)", TV),
    "C02": ("model_checking", "6/C02",
            "TLC enumerates the whole field: MulX bijective and GF(2)-linear on all 2048 elements, d*x^i != 0 for all 16 x 2047 cases (single substitution), d*(x^i+x^j) != 0 for all 120 x 2047 cases (swap), uniqueness of the check word; the implementation's gf_elem_mul2 (all 2048) and gf_poly_eval are compared with the specification by TLC, and substitutions, swaps, erasure recovery and altered check values go through the public API",
            "code distance argument relies on linearity of PolyEval, itself TLC-checked; gf.h inline functions observed directly and through the API", TV + " (exhaustive field enumeration)"),
    "C03": ("model_checking", "6/C03",
            "the published layout is stated declaratively (SeedCodec.Words, lemma family 'layout' compares it with the README table bit by bit); every phrase the library emits for the 164 holdable unit seeds (plain and encrypted), sampled/all pairs, coins and languages is compared byte for byte by TLC, as are the NFC input and output",
            "golden lists and golden composed forms; separator and compose flags from golden metadata", TV),
    "C04": ("model_checking", "6/C04",
            "every argument of every injected PBKDF2 call (password bytes and length, salt bytes and length, iteration count, key pointer identity, key length) and the key buffer afterwards are conditions of the contract evaluated by TLC; injectivity of the salt/password in each field is a TLC lemma family (kdf); same-seed-by-any-path follows from the abstract heap",
            "the KDF itself is an injected dependency; the stub returns scheduled bytes", TV),
    "C05": ("model_checking", "6/C05",
            "TLC: MulX(d) != 0 for all 2047 coin differences (quick) and Valid(ApplyCoin(ApplyCoin(w,a),b)) <=> a=b for all 2048 x 2048 pairs (thorough); traces: full rows and columns of coin pairs through encode / decode_explicit / decode, seeds whose check word is 0, 1, 1023, 1024, 2047; the issued-phrase relation of the trace specification requires every phrase the library issued for coin A to be rejected with the checksum status for every other coin",
            "linearity of the code (TLC-checked)", TV),
    "C06": ("model_checking", "6/C06",
            "TLC decides LoadStatus/StoreImage on the field-wise exhaustive neighbourhood of valid images (all values of every non-secret field, ~265 000 buffers: acceptance implies store reproduces the buffer, precedence FORMAT > CHECKSUM > UNSUPPORTED); the same buffer families plus constructed non-canonical-but-check-consistent images, multi-bit mutations and random buffers are loaded by the C library and every status and stored image judged by TLC",
            "2^256 buffers explored by structured enumeration, not exhaustively", TV),
    "C07": ("model_checking", "6/C07",
            "TLC checks every list-level clause on all 10 x 2048 golden words (distinct, own index and no other, strictly sorted under the search order for both char signednesses, unique 4-letter heads, no word of >= 4 letters a prefix of another, every abbreviation unambiguous); the code's word tables, registry, names and flags are compared with golden exhaustively (direct table read, every word through the search, every index at every phrase position through encode/decode, the debug self-test with the real normaliser)",
            "golden snapshot is the publication at the pinned release; clause 'no word is a prefix of another' read as stated in DESIGN.md (literal reading false for BIP-39 en/es 3-letter words)", TV + " (exhaustive)"),
    "C08": ("model_checking", "6/C08",
            "the acceptance rule is Wordlists.Accepts; TLC judges the outcome of the library's word search for every character-prefix length x every subset of accents kept/dropped of every word (all accented words, sample/all of the others), negative tokens, whole phrases with independent NFC/NFD variants per position through the real normaliser, and a mass sweep of pseudo-random tokens over each list's own characters (2^21 quick / 2^25 thorough per Chinese list) in which every token the library accepts is judged by the rule",
            "internal search entry point polyseed_lang_find_word observed directly and through both decoders", TV),
    "C09": ("model_checking", "6/C09",
            "TLC proves on the specification that automatic decoding is determined by the ten explicit outcomes exactly as stated (TheoremsSplit: all strings over {a,b,space} up to a length for the splitter; 4096 token sequences over real lists for the relation and precedence); every structured string is given to polyseed_decode (with and without a language pointer) and to polyseed_decode_explicit for all ten languages, also under a failing allocator; every outcome is judged by TLC; two executions per string (automatic first / explicit first) and two relations of the trace specification: explicit decoding with the unique recognising language returns exactly the earlier automatic status, and automatic decoding returns exactly the earlier explicit status of that language",
            "relation checked per call against the specification for which it is a theorem", TV),
    "C10": ("model_checking", "6/C10",
            "TLC: Supported matches the statement for all 32 x 8 (features, mask) pairs, enable/create/query lemmas; PolyseedMC explores all enabling sequences within its bound (NewSeedsAreSupported, NoReservedBit, OnlyEnableChangesMask); traces: all 8 masks (with high argument bits) x all 32 feature values x load / decode / decode_explicit with constructed vectors, create with arguments 0..15 and beyond, queries, round trips, seeds kept alive while the mask changes; the reserved-feature vectors are generated by TLC from the specification (Theorems family 'vectors') as well as constructed",
            "reserved-feature vectors are constructed (the library cannot produce them)", TV + " (exhaustive over masks x features x entry points)"),
    "C11": ("model_checking", "6/C11",
            "TLC decides the quantiser on 64-bit limb arithmetic at both sides of all 1024 month boundaries, the range ends and special clocks; the library is run with the injected (and the libc) clock at those 3 089 values plus random ones and every reported birthday, also after encode/decode, store/load and crypt, is judged by TLC",
            "monotone piecewise-constant quantiser: boundaries decide all 2^64 values", TV + " (exhaustive over boundaries)"),
    "C12": ("model_checking", "6/C12",
            "TLC: CryptApply is an involution preserving birthday/user features and the 150-bit bound for all 256 x 256 (secret byte, mask byte) pairs and all flag/birthday values; PolyseedMC keeps every seed canonical across crypt; traces: repeated applications with biased masks (all values of the dropped bits), equal/different passwords in NFC/NFD spelling, every KDF argument judged, seeds stored/loaded/encoded/decoded after each application",
            "utf8proc NFKD agrees with golden Unicode data on the password pool (environment assumption checked per run)", TV),
    "C13": ("model_checking", "6/C13",
            "Polyseed.tla is the abstract model; PolyseedMC checks its invariants and action properties on all behaviours within the bound; PolyseedImpl (the implementation's step structure composed with the contract) conforms on every exit path and its dependency-call shapes are compared with the code's; behaviours of the model are replayed through the C library (spec -> code) and random walks over the whole API with up to six live seeds and the repository's own test script (in three builds) are validated event by event with the projection of ALL live seeds (code -> spec)",
            "bounded pools (spec/PolyseedMC*.cfg); walks sample beyond", TV + " + replay of TLC-generated behaviours"),
    "C14": ("exploration", "6/C14",
            "hostile phrases, passwords and buffers (length classes around the buffer size, token-count classes, invalid UTF-8, mutations, random bytes) are executed under ASan+UBSan with assertions and in the release build with guard pages and a watchdog; TLC supplies the status oracle for every call, the ledger and input-integrity conditions; a sanitizer report, signal or hang is an event no specification action accepts; thorough tier: termination at design level - TLC checks the liveness property EveryCallReturns (every begun call reaches its return under weak fairness) and NoDeadEnd on the implementation's step structure (PolyseedImpl_live.cfg)",
            "memory safety / UB verdict is the sanitizers' on the inputs explored", "trace validation with the TLA+ specification as oracle; ASan/UBSan/guard pages as observers"),
    "C15": ("fault_enumeration", "6/C15",
            "allocation failure is an independently enabled disjunct of every allocation request in PolyseedMC (all fault choices within the bound; Ledger, NoOrphanBlocks, FailuresChangeNothing); on the code every constructor x outcome class is run with the request succeeding and failing, model behaviours with NULL choices are replayed, walks run under random failure schedules, with the injected allocator and with libc malloc/free",
            "failure schedule = which allocation requests of a call fail; never-zero fresh memory, poisoned freed memory", TV + " with enumerated allocation faults"),
    "C16": ("model_checking", "6/C16",
            "the wipe protocol (freed block zero and wiped through the injected memzero before free; no residue of secret, indices, phrase text, password or mask on the dead call stack) is a set of conditions of the contract evaluated by TLC on traces of every API function on every exit path, in builds at -O0/-O2 (-O3 and assert-enabled in the thorough tier)",
            "residue = what persists in memory after return on a dedicated pre-patterned stack; registers and copies overwritten before return are invisible", TV + "; dead-stack scan as observer"),
    "C17": ("model_checking", "6/C17",
            "TLC computes, per language and form, the sum of per-position maxima of word lengths over the admissible index sets plus separators and compares it with POLYSEED_STR_SIZE read from the header under test (exact, finite); extremal and near-extremal witness seeds are encoded and decoded under ASan and the returned length, termination and round trip judged by TLC",
            "code lists = golden lists (C07)", TV + " (exact finite maximisation)"),
    "C18": ("model_checking", "6/C18",
            "every dependency event carries the identity of the implementation that ran; TLC checks it is the one currently injected (three distinguishable sets, libc via --wrap exactly when the optional entry is NULL, forbidden sources never), rand once with 19 bytes which ARE the secret (all 152 unit-bit outputs), clock once; injection sequences with the caller's struct overwritten after injection",
            "libc and forbidden sources observed by link-time wrapping", TV),
    "C19": ("model_checking", "6/C19",
            "the same scripts run against -fsigned-char and -funsigned-char builds (and assert-enabled variants); both traces are validated by TLC against the one byte-level specification",
            "gcc -funsigned-char models the ARM/PowerPC ABI", TV + " on two compiler configurations"),
    "C20": ("model_checking", "6/C20",
            "PolyseedThreads.tla: all interleavings of the footprint model (3 threads x 2 calls): NoRace, SerialResults, ReadOnlyPhase; code: N threads on disjoint seeds with the library's writable data segments write-protected (any store to static data faults deterministically), ThreadSanitizer build, the threads also walk every exit path of every operation (error statuses, failing allocator, all languages) so that a store on a rarely taken path is seen; the list of writable static symbols is recorded in the evidence (an inventory, not a verdict); every thread's results compared with a serial run of the same script (serial equivalence), and every thread's transcript validated by TLC against the sequential specification",
            "race freedom on the code is the observers' verdict on the schedules run; the model covers the design", TV + "; mprotect/TSan as observers"),
}


COMMON = ("; in every check, additionally: the configuration calls of every execution are varied in ways the model ignores (arbitrary high "
          "bits in the enabling argument, configuration from another thread, automatic decoding without a language pointer); a sample of "
          "the executions is repeated with model-level no-ops woven in (re-injection, mask changed and restored, unrelated decode / create / "
          "free, refusing allocator during a call) and in the -funsigned-char build; and a sample is re-run as concurrent threads with the "
          "library's static data write-protected - every call of all of these is judged by TLC against the same specification")


def main():
    props = [json.loads(l) for l in open(os.path.join(ROOT, "properties.jsonl"))]
    cks, na = [], []
    for p in props:
        pid = p["id"]
        if pid in checks.CHECKS and pid in META:
            cat, ref, text, note, tech = META[pid]
            cks.append({
                "property_id": pid,
                "quick_cmd": "./verif check %s --tier quick" % pid,
                "thorough_cmd": "./verif check %s --tier thorough" % pid,
                "evidence_file": "/verif/evidence/%s.json" % pid,
                "replay_cmd_template": "./verif replay {path}",
                "engine": "tlc-trace-validation",
                "level_claimed": {"category": cat, "text": text + COMMON, "design_ref": "DESIGN.md section " + ref},
                "level_note": note,
                "technique": tech,
            })
        else:
            na.append({"property_id": pid, "reason": "check not registered"})
    m = {
        "version": 1,
        "setup_cmd": "./verif setup",
        "hooks": {
            "guard": "POLYSEED_VERIF",
            "enable": "no source hooks are needed: the polyseed_inject dependency table plus -Wl,--wrap (libc malloc/free/time and forbidden sources) is the instrumentation seam; the guard name is reserved",
            "baseline_off_cmd": "./verif baseline-off",
            "source_commits": [],
            "add_only": True,
        },
        "engines": [{"name": "tlc-trace-validation", "path": "/verif/verif",
                     "serves_properties": [c["property_id"] for c in cks],
                     "kind_free_text": "TLA+ contract (spec/Polyseed.tla) + TLC; conformance driver (harness/driver.c) records Begin/dependency/Ret events of the real library; TLC judges every event (spec/PolyseedTrace.tla); full-size lemma families (spec/Theorems*.tla); model checking of the contract with bounded pools (spec/PolyseedMC.tla), of the implementation's step structure (spec/PolyseedImpl.tla, with a liveness configuration) and of the threads' footprint model (spec/PolyseedThreads.tla, Apalache inductive invariant)"}],
        "checks": cks,
        "not_applicable": na,
        "notes": "exit 0 = held on everything explored, 1 = VIOLATION line, 2 = infrastructure failure (never a verdict). VERIF_SEED/--seed seeds all random choices; VERIF_REPO overrides the tree location (default /repo).",
    }
    json.dump(m, open(os.path.join(ROOT, "MANIFEST.json"), "w"), indent=1)
    print("%d checks, %d not applicable" % (len(cks), len(na)))


if __name__ == "__main__":
    main()
