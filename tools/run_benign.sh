#!/bin/sh
# Benign refactorings (each compiles, passes the test suite and keeps every property): no check may raise an alarm.
cd "$(dirname "$0")/.."
run() { p=$1; shift; echo "== $p"; ./verif trypatch benign/$p.patch "$@" | cut -c1-220; }
run wipes-reordered-and-extra C16 C13 C04 C12 C01
run always-normalise C01 C08 C09 C12 C13 C14 C19
run registry-reordered C07 C09 C01 C13
run table-free-field-arithmetic C02 C05 C01 C06 C20
# (not C13: under a failing allocator this encode returns an empty phrase - a failure mode the abstract model of C13 does not have;
#  the walks of C13 schedule allocation failures for every call and rightly report it)
run encode-heap-temporary C15 C16 C03 C17 C20 C14
run seed-struct-layout C13 C06 C04 C15 C16 C10
# a (correct) hash index for the unsorted lists, built inside polyseed_inject and read-only afterwards: new writable statics, no race
run lookup-index-built-at-inject C20 C08 C07 C13 C09
# polyseed_free wipes the block through the injected memzero in two adjacent pieces (tail first): covered is covered
run free-wipes-in-two-calls C16 C15 C13 C14 C20
