#!/bin/sh
# Benign refactorings (each compiles, passes the test suite and keeps every property): no check may raise an alarm.
cd "$(dirname "$0")/.."
run() { p=$1; shift; echo "== $p"; ./verif trypatch benign/$p.patch "$@" | cut -c1-220; }
run wipes-reordered-and-extra C16 C13 C04 C12 C01
run always-normalise C01 C08 C09 C12 C13 C14 C19
run registry-reordered C07 C09 C01 C13
run table-free-field-arithmetic C02 C05 C01 C06 C20
# (encode-heap-temporary, once listed here, is not benign: with a heap temporary polyseed_encode fails when the allocator refuses,
#  which the API cannot report; two independent agents later submitted the same change as a BREAKING one - seeded/C03-g, seeded/C17-f)
run seed-struct-layout C13 C06 C04 C15 C16 C10
# a (correct) hash index for the unsorted lists, built inside polyseed_inject and read-only afterwards: new writable statics, no race
run lookup-index-built-at-inject C20 C08 C07 C13 C09
# polyseed_free wipes the block through the injected memzero in two adjacent pieces (tail first): covered is covered
run free-wipes-in-two-calls C16 C15 C13 C14 C20
# ---- round 2: eighteen changes written by independent sub-agents asked to PRESERVE all twenty properties ----
# GF(2048) polynomial evaluation with delayed reduction: accumulate the unreduced carry-less sum of coeff[i] << i in 32 bits and reduce once with two branch-free folds (x^11 = x^2 + 1); the mul2 lookup table (a writable global) and gf_elem_mul2 are removed.  Why it is the same function: the old code i
run gf-unreduced-sum-evaluation C02 C05 C20 C13
# Word lookup without libc bsearch and without the temporary index array: an inlined binary search specialised per matching rule (no indirect comparator call, no wrappers), and auto-detection decodes candidates straight into the output array and only *tests* the remaining languages once one language h
run inlined-binary-search-scan-into-caller-array C07 C08 C09 C01 C16 C13 C02
# Fewer passes over phrase text: both decoders share one routine that copies, checks for non-ASCII and splits an ASCII phrase in a single pass (falling back to NFKD + the old splitter otherwise), and polyseed_encode writes languages that need no composition directly into the caller's buffer instead of
run single-pass-ascii-splitter-direct-encode C09 C14 C19 C08 C17 C03 C13 C16
# polyseed_encode writes the phrase of non-composing languages (en, it, cs, pt, zh_s, zh_t) straight into the caller's buffer; the stack scratch copy exists (and is wiped) only for the languages that need NFC composition (es, fr, jp, ko).  Files: src/polyseed.c only (polyseed_encode split into write_p
run encode-direct-for-non-composing C03 C17 C16 C01 C13 C14
# Text temporaries are wiped as soon as they are dead: both decoders now share phrase_to_poly (normalized phrase + word pointers live and die in that helper's frame, wiped before the checksum is verified and before the allocator is called) and poly_to_seed; polyseed_crypt wipes the normalized password
run decoder-helpers-early-wipes C09 C16 C15 C13 C12 C14 C08
# Decoders share a head helper (normalise + split) and a tail helper (coin, checksum, allocate, unpack, feature check); the goto ladders become status chaining with one unconditional wipe block.  What changed: polyseed_decode and polyseed_decode_explicit no longer duplicate 60 lines each. phrase_split
run decoders-share-split-and-finish C09 C16 C15 C13 C14 C08 C01
# create/crypt share a seed_seal() helper that recomputes the check word, encode/load share seed_to_poly(), polyseed_load releases the seed at a single cleanup label, polyseed_create clears the whole fresh block.  What changed:
run seed-seal-and-single-cleanup-label C13 C06 C16 C18 C15 C12 C11
# polyseed_encode builds the phrase with a phrase_write() helper, directly in the caller's buffer for the six languages that need no composition (temporary buffer only for es/fr/jp/ko); polyseed_keygen fills the salt from a small table.  What changed:
run phrase-write-helper-salt-table C03 C17 C16 C04 C01 C13
# gf.c/gf.h: secret<->polynomial conversion rewritten as a bit-stream accumulator (two passes, no memset, different types), and gf_elem_mul2 computed by shift + reduction with 0x805 instead of the writable lookup table (table symbol removed).  What changed
run bitstream-packing-shift-reduce-doubling C02 C05 C01 C03 C20 C13
# storage.c: serializer/deserializer rewritten byte-by-byte with explicit offsets and shifts (no store16/load16, no memcpy/memcmp/memset, header as a uint8_t table), and load now validates all fixed bits first (OR-accumulated difference, single exit) before writing anything into the seed.  What change
run bytewise-storage-codec C06 C13 C10 C16 C14
# birthday.h/features.c/features.h: birthday_encode reduces modulo the 1024-step period and then divides in 32-bit arithmetic (no '& DATE_MASK'), birthday_decode widened step by step; polyseed_enable_features computes the reserved mask arithmetically, counts bits with the n &= n-1 loop and writes the 
run birthday-features-arithmetic C11 C10 C13 C18
# Phrase splitter moved from polyseed.c into lang.c (polyseed_phrase_split) and rewritten: a read-only counting pass first, then the buffer is cut from the back and words[] is filled from index 15 down to 0; on a wrong word count the normalized copy is not modified at all.  Why every property it comes
run back-to-front-splitter C09 C14 C08 C13 C19 C16 C01
# lang.c lookup rewritten: libc bsearch and the four callback comparers are replaced by one matcher (plain unsigned-byte lexicographic order, accent bytes skipped for es/fr, reporting order / common length / token-exhausted), a hand-written lower-bound search over that true total order followed by ONE
run lower-bound-search-single-matcher C07 C08 C09 C19 C13 C01 C02
# Language registry changed from an array of list pointers to a const table of {list, search function, comparer} resolved at compile time, and auto-detection rewritten word-major: a 10-bit candidate mask is narrowed word by word (early exit when empty), then the first surviving language is decoded str
run registry-table-candidate-mask-detection C07 C08 C09 C16 C13 C01 C20 C02
# dependency.h: the GET_*/PBKDF2_SHA256/UTF8_*/ALLOC/FREE macros become typed static inline wrappers (dep_*), CHECK_DEPS becomes an inline function, and the lazy NFKD helper moves out of the header into dependency.c as a hidden function rewritten as scan-then-memcpy; polyseed_crypt's salt becomes uint
run dependency-macros-to-inline-functions C08 C09 C12 C14 C19 C13 C18 C16
# polyseed_inject now validates the caller's table first, resolves all eight entries (libc fallbacks included) into a local table and commits it with one assignment; the library's global becomes a private polyseed_deps_table with its own field order instead of a copy of the public polyseed_dependency 
run inject-validates-then-commits-private-table C18 C13 C20 C15
# polyseed_data is re-laid out: the 32-byte secret buffer first, then birthday and checksum as uint16_t and features as uint8_t (was: unsigned, unsigned, secret, uint_fast16_t), shrinking the seed block from 48 to 38 bytes on x86-64 with one trailing padding byte; storage.c gains compile-time width ch
run seed-struct-38-bytes C13 C15 C16 C04 C06 C10 C11
