#!/bin/sh
# Every check against every benign change (slow: ~12 min per change).  usage: tools/run_benign_all.sh [pattern]
cd "$(dirname "$0")/.."
for p in benign/*${1:-}*.patch; do
    echo "== $p"
    ./verif trypatch $p C01 C02 C03 C04 C05 C06 C07 C08 C09 C10 C11 C12 C13 C14 C15 C16 C17 C18 C19 C20 | cut -c1-200 | grep -v "exit 0" || true
    echo "   (done; lines above, if any, are the checks that did not exit 0)"
done
