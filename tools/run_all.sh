#!/bin/sh
# usage: tools/run_all.sh quick|thorough  - runs every check once, prints one summary line each
tier=${1:-quick}
cd "$(dirname "$0")/.."
for c in C01 C02 C03 C04 C05 C06 C07 C08 C09 C10 C11 C12 C13 C14 C15 C16 C17 C18 C19 C20; do
    start=$(date +%s)
    out=$(./verif check $c --tier $tier 2>&1)
    rc=$?
    end=$(date +%s)
    echo "$c rc=$rc $((end-start))s $(echo "$out" | grep -E '^(OK|VIOLATION|INFRA|KNOWN)' | head -2 | tr '\n' ' ' | cut -c1-300)"
done
