#!/usr/bin/env python3
"""Produce /verif/golden/*.json from a dump of the PINNED tree's language registry.

Run once (by hand) when the golden snapshot is created:

    git -C /repo archive 9e9caad | tar x -C $SCRATCH
    gcc -DPOLYSEED_STATIC -iquote $SCRATCH/src -I$SCRATCH/include tools/dump_lists.c $SCRATCH/src/*.c -o $SCRATCH/dump
    $SCRATCH/dump > $SCRATCH/raw.json
    python3 tools/make_golden.py $SCRATCH/raw.json

The checks only ever READ the golden files (and verify their SHA-256).  Unicode forms are computed with
Python's unicodedata, which is independent of utf8proc, the normaliser the harness injects.
"""
import hashlib
import json
import sys
import unicodedata

NBUCKETS = 509
IDS = ["en", "jp", "ko", "es", "fr", "it", "cs", "pt", "zh_s", "zh_t"]


def key_of(word, accents):
    return [b for b in word if b < 0x80] if accents else list(word)


def head_of(word, prefix, accents):
    k = key_of(word, accents)
    return k[:4] if prefix else k


def bucket(head):
    h = 7
    for b in head:
        h = (h * 31 + b) % NBUCKETS
    return h


def main():
    raw = json.load(open(sys.argv[1]))
    out = {"nbuckets": NBUCKETS, "langs": []}
    for lid, L in zip(IDS, raw["langs"]):
        words = L["words"]
        wordsC = []
        for w in words:
            s = bytes(w).decode("utf-8")
            assert unicodedata.normalize("NFKD", s) == s, (lid, s)
            c = unicodedata.normalize("NFC", s)
            assert unicodedata.normalize("NFKD", c) == s, (lid, s)
            wordsC.append(list(c.encode("utf-8")))
        sep = bytes(L["sep"]).decode("utf-8")
        assert unicodedata.normalize("NFKD", sep) == " "
        sepC = unicodedata.normalize("NFC", sep)
        idx = [[] for _ in range(NBUCKETS)]
        for i, w in enumerate(words):
            idx[bucket(head_of(w, L["has_prefix"], L["has_accents"]))].append(i + 1)
        out["langs"].append({
            "id": lid,
            "name": L["name"],
            "name_en": list(L["name_en"].encode()),
            "sep": L["sep"],
            "sepC": list(sepC.encode("utf-8")),
            "sorted": L["is_sorted"],
            "prefix": L["has_prefix"],
            "accents": L["has_accents"],
            "compose": L["compose"],
            "words": words,
            "wordsC": wordsC,
            "idx": idx,
            "sha256": hashlib.sha256(b"\n".join(bytes(w) for w in words)).hexdigest(),
        })
    with open("/verif/golden/lists.json", "w") as f:
        json.dump(out, f, separators=(",", ":"))

    # password pool: every entry in NFC and NFD spelling with its NFKD form (expected KDF password)
    pool = ["", "password", "correct horse battery staple", "pässwörd", "contraseña",
            "mot de passe très sécurisé", "пароль", "密碼", "パスワード", "암호문",
            "ﬁancé №5", "Ω≈ç√∫˜µ≤≥÷", "ạ́b", "ṩ̣̇", "㌀㍿", "½ ² ℌ",
            # capitals, digits, punctuation: normalisation is not case folding
            "Correct Horse Battery Staple", "PIN-2024-XYZ", "Ünïcödé Ǆ ﬁ Å", "ÀÉÎÕÜ ÇA VA",
            # three- and four-byte sequences with the lead bytes E0 / ED / EF / F0 / F4 (range checks on the second byte)
            "สวัสดี ก็ ำ", "café \U0001F600 \U0001D400bc", "\uD7A3 \uFB01 \uFFFD \U0010FFFD x", "\u0800\u0FFF\U00010000\U0003FFFD"]
    pw = []
    for s in pool:
        pw.append({
            "nfc": list(unicodedata.normalize("NFC", s).encode("utf-8")),
            "nfd": list(unicodedata.normalize("NFD", s).encode("utf-8")),
            "nfkd": list(unicodedata.normalize("NFKD", s).encode("utf-8")),
        })
    with open("/verif/golden/passwords.json", "w") as f:
        json.dump({"pool": pw, "unidata": unicodedata.unidata_version}, f, separators=(",", ":"))

    sums = {}
    for name in ("lists.json", "passwords.json"):
        sums[name] = hashlib.sha256(open("/verif/golden/" + name, "rb").read()).hexdigest()
    with open("/verif/golden/SHA256SUMS.json", "w") as f:
        json.dump(sums, f, indent=1)
    print(sums)


if __name__ == "__main__":
    main()
