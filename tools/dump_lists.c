/* Dumps the language registry of a polyseed tree as JSON (bytes as integer arrays).
   Used once by make_golden.py against the pinned commit; never run by the checks. */
#include "polyseed.h"
#include "lang.h"
#include <stdio.h>
#include <string.h>

static void dump_bytes(const char* s) {
    printf("[");
    for (size_t i = 0; s[i]; ++i) printf("%s%u", i ? "," : "", (unsigned)(unsigned char)s[i]);
    printf("]");
}

int main(void) {
    int n = polyseed_get_num_langs();
    printf("{\"langs\":[\n");
    for (int li = 0; li < n; ++li) {
        const polyseed_lang* L = polyseed_get_lang(li);
        printf("{\"name\":"); dump_bytes(L->name);
        printf(",\"name_en\":\"%s\"", L->name_en);
        printf(",\"sep\":"); dump_bytes(L->separator);
        printf(",\"is_sorted\":%s,\"has_prefix\":%s,\"has_accents\":%s,\"compose\":%s",
            L->is_sorted ? "true" : "false", L->has_prefix ? "true" : "false",
            L->has_accents ? "true" : "false", L->compose ? "true" : "false");
        printf(",\"words\":[");
        for (int i = 0; i < POLYSEED_LANG_SIZE; ++i) {
            if (i) printf(",");
            dump_bytes(L->words[i]);
        }
        printf("]}%s\n", li + 1 < n ? "," : "");
    }
    printf("]}\n");
    return 0;
}
