#!/usr/bin/env python3
"""Confirm a seeded change (patch + demonstration) independently and run the checks against it.
usage: eval_seeded.py <id> <property> <patch> <demo.c> [--checks C01,C13] [--needs "..."]
Confirms in a scratch worktree of /repo (outside /repo and /verif): the test suite passes with the
change, the demonstration fails with it and passes without it.  Then runs ./verif trypatch.
Stores the result under /verif/seeded/<id>/."""
import argparse
import json
import os
import shutil
import subprocess
import sys
import tempfile

ROOT = os.path.dirname(os.path.dirname(os.path.abspath(__file__)))


def sh(cmd, **kw):
    return subprocess.run(cmd, stdout=subprocess.PIPE, stderr=subprocess.STDOUT, text=True, **kw)


NDEBUG = []
CFLAGS = []


def build_demo(d, demo, out):
    src = open(demo).read()
    srcs = [os.path.join(d, "src", f) for f in sorted(os.listdir(os.path.join(d, "src"))) if f.endswith(".c")]
    cc = ["gcc", "-O1"]
    extra = ["-lutf8proc", "-lpthread"]
    if "pthread_create" in src:
        cc = ["clang", "-O1", "-g", "-fsanitize=thread"]
    if "__wrap_" in src:
        import re
        extra.append("-Wl," + ",".join("--wrap=" + w for w in sorted(set(re.findall(r"__wrap_(\w+)", src)))))
    r = sh(cc + NDEBUG + CFLAGS + ["-std=gnu11", "-DPOLYSEED_STATIC", "-I", os.path.join(d, "include"), "-iquote", os.path.join(d, "src"), demo] + srcs + ["-o", out] + extra)
    return r.returncode == 0, r.stdout[-400:]


def main():
    ap = argparse.ArgumentParser()
    ap.add_argument("id"); ap.add_argument("prop"); ap.add_argument("patch"); ap.add_argument("demo")
    ap.add_argument("--checks", default=""); ap.add_argument("--needs", default=""); ap.add_argument("--tier", default="quick"); ap.add_argument("--cflags", default="")
    a = ap.parse_args()
    CFLAGS.extend(a.cflags.split())
    d = tempfile.mkdtemp(prefix="polyseed-seeded-")
    os.rmdir(d)
    log = []
    try:
        r = sh(["git", "-C", "/repo", "worktree", "add", "-q", "--detach", d, "HEAD"])
        assert r.returncode == 0, r.stdout
        env = dict(os.environ, TSAN_OPTIONS="exitcode=66 halt_on_error=1")
        ok, msg = build_demo(d, a.demo, os.path.join(d, "demo_clean"))
        assert ok, "demo does not build on the clean tree: " + msg
        r0 = subprocess.run([os.path.join(d, "demo_clean")], stdout=subprocess.PIPE, stderr=subprocess.STDOUT, timeout=600, env=env)
        if r0.returncode == -6:
            # the agents build in Release mode: a demonstration whose stubs do not satisfy the debug self-test
            NDEBUG.append("-DNDEBUG")
            ok, msg = build_demo(d, a.demo, os.path.join(d, "demo_clean"))
            r0 = subprocess.run([os.path.join(d, "demo_clean")], stdout=subprocess.PIPE, stderr=subprocess.STDOUT, timeout=600, env=env)
        log.append("demo on unchanged tree: exit %d%s" % (r0.returncode, " (built with -DNDEBUG)" if NDEBUG else ""))
        r = sh(["git", "-C", d, "apply", os.path.abspath(a.patch)])
        assert r.returncode == 0, "patch does not apply: " + r.stdout
        srcs = [os.path.join(d, "src", f) for f in os.listdir(os.path.join(d, "src")) if f.endswith(".c")]
        r = sh(["gcc", "-O2", "-DNDEBUG", "-std=gnu11", "-DPOLYSEED_STATIC", "-I", os.path.join(d, "include"), os.path.join(d, "tests", "tests.c")] + srcs + ["-o", os.path.join(d, "t")])
        assert r.returncode == 0, "changed tree does not compile: " + r.stdout[-300:]
        rt = sh([os.path.join(d, "t")], timeout=300)
        suite_ok = rt.returncode == 0 and "All tests were successful" in rt.stdout
        log.append("test suite with the change: %s (%d PASSED)" % ("passes" if suite_ok else "FAILS", rt.stdout.count("PASSED")))
        ok, msg = build_demo(d, a.demo, os.path.join(d, "demo_mut"))
        assert ok, "demo does not build on the changed tree: " + msg
        r1 = subprocess.run([os.path.join(d, "demo_mut")], stdout=subprocess.PIPE, stderr=subprocess.STDOUT, timeout=600, env=env)
        log.append("demo with the change: exit %d%s" % (r1.returncode, " (demo and library built with %s)" % a.cflags if a.cflags else ""))
        confirmed = suite_ok and r0.returncode == 0 and r1.returncode != 0
    finally:
        sh(["git", "-C", "/repo", "worktree", "remove", "--force", d])
    checks = [c for c in (a.checks.split(",") if a.checks else [a.prop]) if c]
    r = sh([os.path.join(ROOT, "verif"), "trypatch", os.path.abspath(a.patch)] + checks + ["--tier", a.tier])
    results = {}
    for line in r.stdout.splitlines():
        if ": exit " in line:
            pid, rest = line.split(": exit ", 1)
            results[pid] = dict(exit=int(rest.split()[0]), first=rest[2:].strip()[:300])
    log.append("checks: " + json.dumps({k: v["exit"] for k, v in results.items()}))
    print("\n".join(log))
    print("confirmed:", confirmed)
    for k, v in results.items():
        print("  %s exit %d %s" % (k, v["exit"], v["first"][:200]))
    if confirmed:
        out = os.path.join(ROOT, "seeded", a.id)
        os.makedirs(out, exist_ok=True)
        shutil.copy(a.patch, os.path.join(out, "patch.diff"))
        shutil.copy(a.demo, os.path.join(out, os.path.basename(a.demo) if os.path.basename(a.demo).startswith("demo") else "demo.c"))
        meta = dict(id=a.id, property=a.prop, needs_to_manifest=a.needs, source="independent sub-agent given only the property text and a scratch worktree",
                    confirmed=log, checks_run={k: v for k, v in results.items()},
                    detected_by=[k for k, v in results.items() if v["exit"] == 1], tier=a.tier)
        json.dump(meta, open(os.path.join(out, "meta.json"), "w"), indent=1)
    return 0


if __name__ == "__main__":
    sys.exit(main())
