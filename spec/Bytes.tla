------------------------------- MODULE Bytes -------------------------------
(***************************************************************************)
(* Byte strings, little-endian field codecs and unsigned 64-bit arithmetic  *)
(* on base-256 limbs.  TLC integers are 32-bit; Unix clock values are       *)
(* 64-bit and decoded birthdays exceed 2^31, so everything wide is a        *)
(* big-endian sequence of bytes ("BigNat") here.                            *)
(***************************************************************************)
EXTENDS Integers, Sequences, Bitwise

Byte == 0..255

IsBytes(s) == \A i \in 1..Len(s) : s[i] \in Byte

\* TLC evaluates [i \in S |-> e] lazily, once per application; Mat forces a tuple (each element once)
Mat(f, n) == SubSeq(f, 1, n)

Zeros(n) == Mat([i \in 1..n |-> 0], n)

\* little-endian encodings of small naturals
LE16(v) == << v % 256, (v \div 256) % 256 >>
LE32(v) == << v % 256, (v \div 256) % 256, (v \div 65536) % 256, (v \div 16777216) % 256 >>
UnLE16(b, p) == b[p] + 256 * b[p + 1]

\* bit k (0 = least significant) of a small natural
Bit(v, k) == (v \div (2 ^ k)) % 2

XorBytes(a, b) == Mat([i \in 1..Len(a) |-> a[i] ^^ b[i]], Len(a))

\* number of set bits among the low n bits
RECURSIVE PopCount(_, _)
PopCount(v, n) == IF n = 0 THEN 0 ELSE (v % 2) + PopCount(v \div 2, n - 1)

IsPrefixOf(p, s) == Len(p) <= Len(s) /\ \A i \in 1..Len(p) : p[i] = s[i]

-----------------------------------------------------------------------------
(* BigNat: big-endian base-256, fixed width 9 (one spare limb so that       *)
(* sums of 64-bit values cannot overflow the representation).               *)

W == 9

\* four 16-bit limbs, least significant first (the trace format) -> BigNat
FromLimbs16(l) == << 0, l[4] \div 256, l[4] % 256, l[3] \div 256, l[3] % 256,
                     l[2] \div 256, l[2] % 256, l[1] \div 256, l[1] % 256 >>

\* a natural below 2^31 -> BigNat
FromNat(n) == Mat([i \in 1..W |-> IF i < W - 3 THEN 0 ELSE (n \div (256 ^ (W - i))) % 256], W)

RECURSIVE BigCmpFrom(_, _, _)
BigCmpFrom(a, b, i) ==   \* -1, 0, 1
    IF i > W THEN 0
    ELSE IF a[i] < b[i] THEN 0 - 1
    ELSE IF a[i] > b[i] THEN 1
    ELSE BigCmpFrom(a, b, i + 1)
BigLt(a, b) == BigCmpFrom(a, b, 1) = 0 - 1
BigLe(a, b) == BigCmpFrom(a, b, 1) <= 0
BigEq(a, b) == a = b

\* carry into position i (from the less significant positions) of a + b
RECURSIVE CarryAdd(_, _, _)
CarryAdd(a, b, i) == IF i >= W THEN 0 ELSE (a[i + 1] + b[i + 1] + CarryAdd(a, b, i + 1)) \div 256
BigAdd(a, b) == Mat([i \in 1..W |-> (a[i] + b[i] + CarryAdd(a, b, i)) % 256], W)

\* borrow into position i of a - b  (requires a >= b)
RECURSIVE BorrowSub(_, _, _)
BorrowSub(a, b, i) ==
    IF i >= W THEN 0
    ELSE IF a[i + 1] - b[i + 1] - BorrowSub(a, b, i + 1) < 0 THEN 1 ELSE 0
BigSub(a, b) == Mat([i \in 1..W |-> (a[i] + 256 - b[i] - BorrowSub(a, b, i)) % 256], W)

\* a (BigNat) times a small natural m (m * 255 + carry must stay below 2^31)
RECURSIVE CarryMul(_, _, _)
CarryMul(a, m, i) == IF i >= W THEN 0 ELSE (a[i + 1] * m + CarryMul(a, m, i + 1)) \div 256
BigMulSmall(a, m) == Mat([i \in 1..W |-> (a[i] * m + CarryMul(a, m, i)) % 256], W)

\* long division of a BigNat by a small divisor d < 2^23: remainder after limb i
RECURSIVE RemAt(_, _, _)
RemAt(a, d, i) == IF i = 0 THEN 0 ELSE (RemAt(a, d, i - 1) * 256 + a[i]) % d
BigDivSmall(a, d) == Mat([i \in 1..W |-> (RemAt(a, d, i - 1) * 256 + a[i]) \div d], W)
BigModSmall(a, d) == RemAt(a, d, W)

\* low 10 bits of a BigNat
BigLow10(a) == (a[W - 1] % 4) * 256 + a[W]

AllOnes64 == << 0, 255, 255, 255, 255, 255, 255, 255, 255 >>
=============================================================================
