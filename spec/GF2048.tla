------------------------------- MODULE GF2048 -------------------------------
(***************************************************************************)
(* The field GF(2^11) = GF(2)[x] / (x^11 + x^2 + 1) and the one-check-word  *)
(* Reed-Solomon code of polyseed: a phrase c[1..16] (c[1] is the check      *)
(* word) is valid iff  SUM c[i] * x^(i-1) = 0  evaluated at the element 2.  *)
(* Written from the definition (shift, reduce; sum of powers), not from the *)
(* implementation's table and Horner loop.                                  *)
(***************************************************************************)
EXTENDS Integers, Sequences, Bitwise, Bytes

GFSize == 2048
GF     == 0..2047
NW     == 16                      \* words per phrase

\* multiplication by the element x (= 2): shift left, reduce by x^11 = x^2 + 1
MulX(a) == IF 2 * a >= GFSize THEN (2 * a - GFSize) ^^ 5 ELSE 2 * a

RECURSIVE MulXn(_, _)             \* a * x^n
MulXn(a, n) == IF n = 0 THEN a ELSE MulXn(MulX(a), n - 1)

RECURSIVE XorSum(_, _)            \* XOR of f[1..n]
XorSum(f, n) == IF n = 0 THEN 0 ELSE f[n] ^^ XorSum(f, n - 1)

\* value of the phrase polynomial at x = 2
PolyEval(c) == XorSum(Mat([i \in 1..NW |-> MulXn(c[i], i - 1)], NW), NW)

Valid(c) == PolyEval(c) = 0

\* the check word for data words d[2..16] (d[1] is ignored)
CheckWord(d) == PolyEval(Mat([i \in 1..NW |-> IF i = 1 THEN 0 ELSE d[i]], NW))

WithCheckOf(d, chk) == Mat([i \in 1..NW |-> IF i = 1 THEN chk ELSE d[i]], NW)
WithCheck(d) == WithCheckOf(d, CheckWord(d))

\* the coin is XORed into the second word
ApplyCoin(c, coin) == Mat([i \in 1..NW |-> IF i = 2 THEN c[2] ^^ coin ELSE c[i]], NW)
=============================================================================
