------------------------------- MODULE Polyseed -------------------------------
(***************************************************************************)
(* The contract of the polyseed library as a state machine.                 *)
(*                                                                          *)
(* Abstract state: the enabled user-feature mask, the injected dependency   *)
(* table, the live seeds (each just secret/birthday/features) and the       *)
(* allocator ledger.  Every API call is three kinds of step:                *)
(*                                                                          *)
(*     Begin(op, args)   Dep(event)*   Return(result)                       *)
(*                                                                          *)
(* Dep steps are where the environment acts (allocation may fail, the       *)
(* random source, the clock, the KDF and the normalisers answer).  The      *)
(* contract constrains them as far as the listed properties do and no       *)
(* further: not the order of wipes, not allocation sizes, not addresses.    *)
(*                                                                          *)
(* Every obligation is a named condition tagged with the properties         *)
(* (C01..C20) it formalises: DepConds(ev) and RetConds(r) return sequences  *)
(* of [n |-> name, p |-> set of property ids, ok |-> BOOLEAN].  An action   *)
(* is enabled iff all its conditions hold.  Trace validation evaluates the  *)
(* same conditions on events recorded from the C code (PolyseedTrace);      *)
(* model checking lets the environment choose the events (PolyseedMC).      *)
(***************************************************************************)
EXTENDS Integers, Sequences, FiniteSets, TLC, Bytes, GF2048, SeedCodec, Wordlists, Phrase

CONSTANT StrSize          \* POLYSEED_STR_SIZE of the header under test

VARIABLES
    mask,      \* 0..7: user feature bits currently enabled
    deps,      \* [rand, kdf, memzero, nfc, nfkd, time, alloc, free |-> "A" | "B" | "C" | "L"]
    heap,      \* live handle |-> [seed, blk]
    blocks,    \* live block id |-> [size, wiped: the byte offsets wiped through the injected memzero so far]
    call       \* the call in flight, or None

vars == <<mask, deps, heap, blocks, call>>

None == [op |-> "None"]

DepKeys == <<"rand", "kdf", "memzero", "nfc", "nfkd", "time", "alloc", "free">>

\* an injected set is written as 8 letters in DepKeys order; N (NULL, optional entries only) means libc
DepsOfSet(set) == [k \in {DepKeys[i] : i \in 1..8} |->
                      LET i == CHOOSE j \in 1..8 : DepKeys[j] = k
                      IN IF set[i] = "N" THEN "L" ELSE set[i]]

Init == /\ mask = 0
        /\ deps = DepsOfSet(<<"A", "A", "A", "A", "A", "A", "A", "A">>)
        /\ heap = <<>>
        /\ blocks = <<>>
        /\ call = None

Cond(name, props, ok) == [n |-> name, p |-> props, ok |-> ok]

Handles == DOMAIN heap
SeedOf(h) == heap[h].seed

RECURSIVE CountKind(_, _, _)
CountKind(log, kind, i) == IF i > Len(log) THEN 0
                           ELSE (IF log[i].e = kind THEN 1 ELSE 0) + CountKind(log, kind, i + 1)
Count(kind) == CountKind(call.log, kind, 1)
FirstOf(kind) == call.log[CHOOSE i \in 1..Len(call.log) : call.log[i].e = kind /\
                              \A j \in 1..(i - 1) : call.log[j].e # kind]
\* wiping of automatic temporaries is allowed everywhere (it is how the library meets C16)
OnlyStackWipes == \A i \in 1..Len(call.log) : call.log[i].e = "Memzero" /\ call.log[i].blk = 0 - 1
AllocFailed == \E i \in 1..Len(call.log) : call.log[i].e = "Alloc" /\ call.log[i].blk = 0
AllocdBlocks == { call.log[i].blk : i \in { j \in 1..Len(call.log) : call.log[j].e = "Alloc" /\ call.log[j].blk # 0 } }

-----------------------------------------------------------------------------
(* Begin                                                                    *)

\* ops: Inject Enable Langs Create Free Encode Decode DecodeX Store Load Crypt Keygen
\*      Birthday Feature IsEncrypted
UsesHandle(op) == op \in {"Free", "Encode", "Store", "Crypt", "Keygen", "Birthday", "Feature", "IsEncrypted"}

Begin(op, a) ==
    /\ call = None
    /\ UsesHandle(op) /\ ~(op = "Free" /\ a.h = 0) => a.h \in Handles
    /\ call' = [op |-> op, a |-> a, log |-> <<>>, blocks0 |-> DOMAIN blocks]
    /\ UNCHANGED <<mask, deps, heap, blocks>>

-----------------------------------------------------------------------------
(* The normalised form of a string argument (phrase or password) as the     *)
(* library holds it: the normaliser's answer if the string needed           *)
(* normalising, else the (cut) string itself.                               *)

\* (Normalising lazily is the library's optimisation, not an obligation: a string without non-ASCII bytes may
\* be normalised all the same; a string with one must be.)
NormOf(str) == IF Count("Nfkd") > 0 THEN FirstOf("Nfkd").out
               ELSE IF NeedsNfkd(str, StrSize) THEN <<>>
               ELSE AsciiCut(str, StrSize)

-----------------------------------------------------------------------------
(* Dependency steps                                                         *)

ConstructorOps == {"Create", "Decode", "DecodeX", "Load"}

\* the properties that speak about an operation as a whole: a dependency used where it has no business
\* violates them too
OpProps(op) ==
    CASE op = "Create" -> {"C18", "C10", "C11"}
      [] op \in {"Decode", "DecodeX"} -> {"C01", "C09", "C08"}
      [] op = "Load" -> {"C06"}
      [] op = "Crypt" -> {"C12"}
      [] op = "Keygen" -> {"C04"}
      [] op = "Encode" -> {"C03", "C01"}
      [] op = "Free" -> {"C15", "C16"}
      [] OTHER -> {}

\* a proper prefix of what was due: the phrase was cut short (C17: no phrase is ever truncated)
CutShort(x, full) == Len(x) < Len(full) /\ x = SubSeq(full, 1, Len(x))

\* the whole block has gone through the injected memzero (in one call or in several pieces, in any order)
FullyWiped(b) == blocks[b].wiped = 0 .. (blocks[b].size - 1)

NfcConds(ev, dec) ==
    << Cond("nfc-through-injected", {"C18", "C13"}, ev.impl = deps.nfc),
       Cond("nfc-once", {"C03", "C13"}, Count("Nfc") = 0),
       Cond("nfc-of-the-decomposed-phrase", {"C03", "C13"} \cup (IF CutShort(ev["in"], dec) THEN {"C17"} ELSE {}), ev["in"] = dec),
       \* environment assumption: the injected normaliser agrees with the golden Unicode data
       Cond("env-nfc-agrees-with-golden", {"ENV"},
            (ev["in"] = dec /\ ev.full < StrSize /\ G(call.a.lang).compose)
            => ev.out = PhraseComposed(G(call.a.lang), PhraseWords(SeedOf(call.a.h), call.a.coin))) >>

DepConds(ev) ==
    LET op == call.op
    IN CASE ev.e = "Alloc" ->
            << Cond("alloc-through-injected", {"C18", "C13"}, ev.impl = deps.alloc),
               Cond("alloc-fresh-block", {"C15"}, ev.blk = 0 \/ ev.blk \notin DOMAIN blocks) >>
         [] ev.e = "Free" ->
            << Cond("free-through-injected", {"C18", "C13"}, ev.impl = deps.free),
               Cond("free-not-null", {"C15"}, ev.blk # 0),
               Cond("free-live-block-once", {"C15", "C13"}, ev.blk \in DOMAIN blocks),
               Cond("free-only-own-or-freed-seed", {"C15", "C13"},
                    \/ ev.blk \in AllocdBlocks
                    \/ (op = "Free" /\ call.a.h # 0 /\ call.a.h \in Handles /\ ev.blk = heap[call.a.h].blk)),
               Cond("freed-block-is-zero", {"C16"}, ev.zero),
               Cond("freed-block-wiped-through-injected-memzero", {"C16"},
                    ev.blk \in DOMAIN blocks => FullyWiped(ev.blk)) >>
         [] ev.e = "Memzero" ->
            << Cond("memzero-through-injected", {"C18", "C16", "C13"}, ev.impl = deps.memzero),
               Cond("memzero-inside-block", {"C14", "C13"},
                    ev.blk >= 1 => (ev.blk \in DOMAIN blocks /\ ev.off + ev.len <= blocks[ev.blk].size)),
               \* (blk -2: memory of a block already handed back to the injected free)
               Cond("no-wipe-of-released-memory", {"C14", "C15", "C13", "C16"}, ev.blk # 0 - 2) >>
         [] ev.e = "Rand" ->
            << Cond("rand-through-injected", {"C18", "C13"}, ev.impl = deps.rand),
               Cond("rand-only-in-create", {"C18", "C13"} \cup OpProps(op), op = "Create"),
               Cond("rand-once", {"C18", "C13"}, Count("Rand") = 0),
               Cond("rand-19-bytes", {"C18", "C13"}, ev.n = SecretBytes) >>
         [] ev.e = "Time" ->
            \* (a clock other than the one in force - a stale entry, libc behind the caller's back - says nothing about
            \* the time of creation: the birthday bound of C11 is gone with it)
            << Cond("time-through-injected", {"C18", "C11", "C13"}, ev.impl = deps.time),
               Cond("time-only-in-create", {"C18", "C11", "C13"} \cup OpProps(op), op = "Create"),
               \* (two readings of a clock are two times: which one is "the time of creation" that C11 bounds?)
               Cond("time-once", {"C18", "C11", "C13"}, Count("Time") = 0) >>
         [] ev.e = "Kdf" ->
            IF op = "Keygen" THEN
            LET s == SeedOf(call.a.h)
            IN << Cond("kdf-through-injected", {"C18", "C13"}, ev.impl = deps.kdf),
                  Cond("kdf-once", {"C04", "C13"}, Count("Kdf") = 0),
                  Cond("keygen-password-32-bytes", {"C04", "C13"}, ev.pwlen = 32),
                  Cond("keygen-password", {"C04", "C13"}, ev.pw = KeygenPw(s)),
                  Cond("keygen-salt-32-bytes", {"C04", "C13"}, ev.saltlen = 32),
                  Cond("keygen-salt", {"C04", "C13"}, ev.salt = KeygenSalt(s, call.a.coin)),
                  Cond("keygen-iterations", {"C04", "C13"}, ev.iter_lo = KdfIterations /\ ev.iter_hi = 0),
                  Cond("keygen-keylen", {"C04", "C13"},
                       ev.keylen = call.a.size /\ ev.keylen_mid = call.a.size_mid /\ ev.keylen_hi = call.a.size_hi),
                  Cond("keygen-caller-buffer", {"C04", "C13"}, ev.callerkey) >>
            ELSE IF op = "Crypt" THEN
            LET norm == NormOf(call.a.pw)
            IN << Cond("kdf-through-injected", {"C18", "C13"}, ev.impl = deps.kdf),
                  Cond("kdf-once", {"C12", "C13"}, Count("Kdf") = 0),
                  Cond("crypt-normalised-when-needed", {"C12", "C19", "C13"},
                       NeedsNfkd(call.a.pw, StrSize) => Count("Nfkd") = 1),
                  Cond("crypt-password-length", {"C12", "C19", "C13"}, ev.pwlen = Len(norm)),
                  Cond("crypt-password", {"C12", "C19", "C13"}, ev.pw = norm),
                  Cond("crypt-salt", {"C12", "C13"}, ev.saltlen = 16 /\ ev.salt = MaskSalt),
                  Cond("crypt-iterations", {"C12", "C13"}, ev.iter_lo = KdfIterations /\ ev.iter_hi = 0),
                  Cond("crypt-keylen", {"C12", "C13"}, ev.keylen = 32 /\ ev.keylen_mid = 0 /\ ev.keylen_hi = 0) >>
            ELSE << Cond("kdf-only-in-keygen-and-crypt", {"C04", "C12", "C13"} \cup OpProps(op), FALSE) >>
         [] ev.e = "Nfkd" ->
            << Cond("nfkd-through-injected", {"C18", "C13"}, ev.impl = deps.nfkd),
               Cond("nfkd-only-for-string-arguments", {"C13"} \cup OpProps(op), op \in {"Decode", "DecodeX", "Crypt"}),
               Cond("nfkd-once", {"C13"}, Count("Nfkd") = 0),
               \* environment assumption: on the golden passwords the injected normaliser agrees with
               \* the independent Unicode implementation the golden data was produced with
               Cond("env-nfkd-agrees-with-golden", {"ENV"},
                    \A q \in 1..Len(GoldenPw.pool) :
                        (ev["in"] = GoldenPw.pool[q].nfc \/ ev["in"] = GoldenPw.pool[q].nfd)
                        => ev.out = SubSeq(GoldenPw.pool[q].nfkd, 1, Min2(Len(GoldenPw.pool[q].nfkd), StrSize - 1))),
               Cond("nfkd-of-the-argument", {"C13", "C14"} \cup OpProps(op),
                    op \in {"Decode", "DecodeX", "Crypt"} =>
                        LET s == IF op = "Crypt" THEN call.a.pw ELSE call.a.str
                        IN ev.inlen = call.a.len /\ ev["in"] = s) >>
         [] ev.e = "Nfc" ->
            IF op = "Encode"
            THEN NfcConds(ev, EncodeDecomposed(SeedOf(call.a.h), call.a.lang, call.a.coin))
            ELSE << Cond("nfc-only-in-encode-of-composing-language", {"C03", "C13"} \cup OpProps(op), FALSE) >>
         [] ev.e = "Forbidden" ->
            << Cond("no-other-source-of-time-randomness-or-memory",
                    {"C13"} \cup (CASE ev.sym \in {"getenv", "setlocale"} -> {"C07", "C09"}       \* hidden input from the process environment
                                    [] ev.sym = "explicit_bzero" -> {"C16"}                     \* wiping behind the injected function
                                    [] ev.sym = "strtok" -> {"C20", "C14"}                      \* hidden static state in libc
                                    [] ev.sym = "prctl" -> {"C20", "C18"}                       \* process-wide attributes saved / restored around a call
                                    [] OTHER -> {"C18"}),
                    FALSE) >>
         [] OTHER -> << Cond("unknown-dependency-event", {"C13"}, FALSE) >>

AllOk(conds) == \A i \in 1..Len(conds) : conds[i].ok

DepUpdate(ev) ==
    /\ call' = [call EXCEPT !.log = Append(@, ev)]
    /\ blocks' = CASE ev.e = "Alloc" /\ ev.blk # 0 -> (ev.blk :> [size |-> ev.size, wiped |-> {}]) @@ blocks
                   [] ev.e = "Free" -> [b \in (DOMAIN blocks) \ {ev.blk} |-> blocks[b]]
                   [] ev.e = "Memzero" /\ ev.blk >= 1 /\ ev.blk \in DOMAIN blocks ->
                          [blocks EXCEPT ![ev.blk].wiped = @ \cup (ev.off .. (ev.off + ev.len - 1))]
                   [] OTHER -> blocks
    /\ UNCHANGED <<mask, deps, heap>>

Dep(ev) ==
    /\ call # None
    /\ AllOk(DepConds(ev))
    /\ DepUpdate(ev)

-----------------------------------------------------------------------------
(* Expected results                                                         *)

StatusTags(exp, got) ==
    LET both == {exp, got}
    IN {"C13"}
       \cup (IF StUnsupported \in both THEN {"C10"} ELSE {})
       \cup (IF StMemory \in both THEN {"C15"} ELSE {})
       \cup (IF StChecksum \in both THEN {"C02", "C05", "C01", "C06"} ELSE {})
       \cup (IF StFormat \in both THEN {"C06", "C14"} ELSE {})
       \cup (IF both \cap {StNumWords, StLang, StMultLang} # {} THEN {"C01", "C07", "C08", "C09", "C14", "C19"} ELSE {})
       \* (C02: "for any 15 data words and coin there is exactly one check word that validates" - a phrase that is valid
       \* and is refused, for whatever reason, leaves its 15 data words with no check word that validates)
       \cup (IF exp = StOK /\ got # StOK THEN {"C02"} ELSE {})
       \* (... and a seed handed out where none is due is the "never success" of C02 and of C05)
       \cup (IF got = StOK /\ exp # StOK THEN {"C02", "C05"} ELSE {})

\* the ledger: what may be live after the call
LedgerConds(r, newblk) ==
    LET expect == IF call.op = "Free" /\ call.a.h # 0
                  THEN call.blocks0 \ {heap[call.a.h].blk}
                  ELSE IF newblk # 0 THEN call.blocks0 \cup {newblk} ELSE call.blocks0
    \* (a failed call must leave no seed allocated: C14 says so too)
    IN << Cond("no-block-leaked-or-lost", {"C15", "C13"} \cup (IF call.op \in ConstructorOps /\ newblk = 0 THEN {"C14"} ELSE {})
                                          \cup (IF call.op = "Load" /\ newblk = 0 THEN {"C06"} ELSE {}),
               DOMAIN blocks = expect) >>

CommonConds(r) ==
    << Cond("no-secret-residue-on-dead-stack", {"C16"}, r.residue = <<>>) >>

CreateExpected ==
    IF AllocFailed THEN StMemory
    ELSE IF ~Supported(MakeFeatures(call.a.lo), mask) THEN StUnsupported
    ELSE StOK

DecodeSel == IF call.op = "DecodeX" THEN call.a.lang ELSE 0
DecodeExpected == DecodeOutcome(NormOf(call.a.str), call.a.coin, DecodeSel, mask, AllocFailed)

LoadExpected == IF AllocFailed THEN StMemory ELSE LoadStatus(call.a.buf, mask)

ConstructorConds(r, exp) ==
    \* (with a normaliser that is not NFKD - the caller's business - the decomposed form is still what that function says:
    \* a decoder that answers otherwise has normalised on its own, C18)
    << Cond("status", StatusTags(exp, r.st) \cup (IF call.op = "Load" THEN {"C06"} ELSE {})
                      \cup (IF call.op \in {"Decode", "DecodeX"} /\ call.a.idn THEN {"C18"} ELSE {}), r.st = exp),
       \* (C06: "every other buffer yields the format, checksum or unsupported status ... and no seed"; C14: "a failed call
       \* leaves no seed allocated")
       Cond("handle-iff-ok", {"C13", "C15", "C14"} \cup (IF call.op = "Load" THEN {"C06"} ELSE {}), ((r.st = StOK) <=> (r.h # 0)) /\ ~r.outw),
       Cond("new-seed-block-from-this-call", {"C15", "C13"},
            r.st = StOK => (r.blk \in AllocdBlocks /\ r.blk \in DOMAIN blocks)),
       Cond("fresh-handle", {"C13"}, r.h # 0 => r.h \notin Handles) >>

EncodeCondsFit(r, outp, fits) ==
    << Cond("phrase-fits-the-public-buffer", {"C17", "C01", "C13"}, fits),
       \* (C01: decoding the encoded phrase yields the seed - not if the phrase is not the seed's; C07: the words as published)
       Cond("phrase-bytes", {"C03", "C13", "C01", "C07"} \cup (IF fits /\ ~CutShort(r.str, outp) THEN {} ELSE {"C17"}), r.str = outp),
       Cond("returned-length-is-string-length", {"C17", "C13"}, r.ret = Len(r.str)),
       Cond("output-terminated-inside-buffer", {"C17", "C14", "C13"}, r.terminated /\ ~r.spill),
       Cond("composed-iff-language-composes", {"C03", "C13"},
            G(call.a.lang).compose => Count("Nfc") = 1) >>
EncodeConds(r, dec, outp) == EncodeCondsFit(r, outp, Len(dec) < StrSize /\ Len(outp) < StrSize)

\* conditions of a Return step and the heap after it, evaluated together so that the expensive
\* decoding outcome is computed once
RetEvalWith(r, dexp, newseed) ==
    LET op == call.op
        a  == call.a
        conds ==
       CommonConds(r) \o
       CASE op = "Inject" ->
            LedgerConds(r, 0) \o
            << Cond("inject-uses-no-dependency", {"C13"}, OnlyStackWipes) >>
         [] op = "Enable" ->
            LedgerConds(r, 0) \o
            << Cond("enable-returns-number-of-user-bits", {"C10", "C13"}, r.ret = EnableResult(a.lo)) >>
         [] op = "Langs" ->
            << Cond("ten-languages", {"C07", "C13"}, r.ret = NLangs /\ Len(r.names) = NLangs),
               \* (the header says callers must not rely on a language's index: presence matters, order does not)
               Cond("published-languages-in-published-order", {"C07", "C13"},
                    Len(r.names) = NLangs =>
                    \A k \in LangNos : \E j \in 1..Len(r.names) :
                                       /\ r.names[j].id = G(k).id
                                       /\ r.names[j].en = G(k).name_en
                                       /\ r.names[j].nat = G(k).name
                                       /\ \A j2 \in 1..Len(r.names) : r.names[j2].id = G(k).id => j2 = j),
               Cond("separators-and-flags", {"C07", "C03", "C13"},
                    \A j \in 1..Len(r.names) : IsLangId(r.names[j].id) =>
                                       /\ r.names[j].sep = LangOf(r.names[j].id).sep
                                       /\ r.names[j].sorted = LangOf(r.names[j].id).sorted
                                       /\ r.names[j].prefix = LangOf(r.names[j].id).prefix
                                       /\ r.names[j].accents = LangOf(r.names[j].id).accents
                                       /\ r.names[j].compose = LangOf(r.names[j].id).compose) >>
         [] op = "Create" ->
            ConstructorConds(r, CreateExpected) \o
            LedgerConds(r, IF r.st = StOK THEN r.blk ELSE 0) \o
            << Cond("create-draws-19-random-bytes-once", {"C18", "C13"}, r.st = StOK => Count("Rand") = 1),
               Cond("create-reads-the-clock-once", {"C18", "C11", "C13"}, r.st = StOK => Count("Time") = 1) >>
         [] op \in {"Decode", "DecodeX"} ->
            LET exp == dexp
            IN ConstructorConds(r, exp.st) \o
               LedgerConds(r, IF r.st = StOK THEN r.blk ELSE 0) \o
               \* (the model knows the decomposed form only from the injected normaliser's answer: a decoder that does not ask
               \* it for a string that needs it cannot have decided the string by its decomposed form - whatever it returns,
               \* it is not what the decoding properties state)
               << Cond("normalised-iff-non-ascii", {"C13", "C19", "C08", "C09", "C01", "C14"},
                       NeedsNfkd(a.str, StrSize) => Count("Nfkd") = 1),
                  Cond("detected-language", {"C09", "C01", "C13"},
                       (op = "Decode" /\ a.wantlang /\ r.st = StOK /\ exp.st = StOK) => r.langout = G(exp.lang).id),
                  Cond("input-not-modified", {"C14"}, r.intact) >>
         [] op = "Load" ->
            ConstructorConds(r, LoadExpected) \o
            LedgerConds(r, IF r.st = StOK THEN r.blk ELSE 0) \o
            \* (C12: an encrypted seed "can be ... stored and loaded like any seed": bit 14 of the field at bytes 8-9)
            << Cond("stored-encrypted-seed-loads", {"C12", "C06", "C13"},
                    (LoadExpected = StOK /\ (a.buf[10] \div 64) % 2 = 1) => r.st = StOK),
               Cond("input-not-modified", {"C14"}, r.intact) >>
         [] op = "Free" ->
            LedgerConds(r, 0) \o
            << Cond("free-null-does-nothing", {"C15", "C13"}, a.h = 0 => OnlyStackWipes),
               Cond("seed-block-released-once", {"C15", "C13"}, a.h # 0 => Count("Free") = 1) >>
         [] op = "Encode" ->
            LedgerConds(r, 0) \o
            EncodeConds(r, EncodeDecomposed(SeedOf(a.h), a.lang, a.coin), EncodeOut(SeedOf(a.h), a.lang, a.coin))
         [] op = "Store" ->
            LedgerConds(r, 0) \o
            << Cond("serialised-bytes", {"C06", "C13"}, r.img = StoreImage(SeedOf(a.h))),
               Cond("exactly-32-bytes-written", {"C06", "C14", "C13"}, ~r.spill),
               Cond("store-uses-no-dependency", {"C13"}, OnlyStackWipes) >>
         [] op = "Crypt" ->
            LedgerConds(r, 0) \o
            << Cond("mask-derived-once", {"C12", "C13"}, Count("Kdf") = 1),
               Cond("input-not-modified", {"C14"}, r.intact) >>
         [] op = "Keygen" ->
            LedgerConds(r, 0) \o
            << Cond("kdf-invoked-exactly-once", {"C04", "C13"}, Count("Kdf") = 1),
               Cond("key-left-as-the-kdf-wrote-it", {"C04", "C13"}, r.keyintact) >>
         [] op = "Birthday" ->
            LedgerConds(r, 0) \o
            << Cond("birthday-value", {"C11", "C13"},
                    FromLimbs16(r.val) = TimeOfBirthday(SeedOf(a.h).birthday)),
               Cond("query-uses-no-dependency", {"C13"}, OnlyStackWipes) >>
         [] op = "Feature" ->
            LedgerConds(r, 0) \o
            << Cond("feature-query", {"C10", "C13"},
                    r.hi = 0 /\ r.lo = GetFeature(SeedOf(a.h).features, a.lo)),
               Cond("query-uses-no-dependency", {"C13"}, OnlyStackWipes) >>
         [] op = "IsEncrypted" ->
            LedgerConds(r, 0) \o
            << Cond("encrypted-flag", {"C10", "C12", "C13"},
                    r.ret = (IF IsEncrypted(SeedOf(a.h).features) THEN 1 ELSE 0)),
               Cond("query-uses-no-dependency", {"C13"}, OnlyStackWipes) >>
         [] OTHER -> << Cond("unknown-operation", {"C13"}, FALSE) >>
        nh ==
          CASE op \in ConstructorOps /\ r.st = StOK -> (r.h :> [seed |-> newseed, blk |-> r.blk]) @@ heap
            [] op = "Free" /\ a.h # 0 -> [h \in Handles \ {a.h} |-> heap[h]]
            [] op = "Crypt" /\ Count("Kdf") >= 1 ->
                   [heap EXCEPT ![a.h].seed = CryptApply(@, FirstOf("Kdf").out)]
            [] OTHER -> heap
    IN [conds |-> conds, heap |-> nh, exp |-> dexp]

RetEvalDecoded(r, dexp) ==
    RetEvalWith(r, dexp,
        CASE call.op = "Create" /\ Count("Rand") > 0 /\ Count("Time") > 0 ->
                 FreshSeed(FirstOf("Rand").out, FromLimbs16(FirstOf("Time").val), call.a.lo)
          [] call.op \in {"Decode", "DecodeX"} -> dexp.seed
          [] call.op = "Load" -> BufSeed(call.a.buf)
          [] OTHER -> NoSeed)

RetEval(r) == RetEvalDecoded(r, IF call.op \in {"Decode", "DecodeX"} THEN DecodeExpected ELSE Failure(StLang))

ReturnUpdate(r, nh) ==
    /\ heap' = nh
    /\ mask' = IF call.op = "Enable" THEN call.a.lo % 8 ELSE mask
    /\ deps' = IF call.op = "Inject" THEN DepsOfSet(call.a.set) ELSE deps
    /\ call' = None
    /\ UNCHANGED blocks

ReturnIf(r, e) == AllOk(e.conds) /\ ReturnUpdate(r, e.heap)
Return(r) ==
    /\ call # None
    /\ ReturnIf(r, RetEval(r))

-----------------------------------------------------------------------------
(* What the public API must show for a live seed (the projection the        *)
(* conformance driver reads back after every call)                          *)

Projection(seed) ==
    [ img  |-> StoreImage(seed),
      pw   |-> KeygenPw(seed),
      salt |-> KeygenSalt(seed, 0),
      bd   |-> TimeOfBirthday(seed.birthday),
      ft   |-> seed.features % 8,
      enc  |-> IF IsEncrypted(seed.features) THEN 1 ELSE 0 ]

-----------------------------------------------------------------------------
(* Invariants of the contract (checked by TLC in PolyseedMC)                *)

Canonical == \A h \in Handles : IsSeed(SeedOf(h))
OneBlockPerSeed == /\ \A h \in Handles : heap[h].blk \in DOMAIN blocks
                                        \/ (call # None /\ call.op = "Free" /\ call.a.h = h)   \* being released
                   /\ \A g, h \in Handles : g # h => heap[g].blk # heap[h].blk
NoLeakAtRest == call = None => DOMAIN blocks = { heap[h].blk : h \in Handles }
=============================================================================
