SPECIFICATION Spec
CONSTANT Family = "gfswap"
INVARIANT Holds
CHECK_DEADLOCK FALSE
