SPECIFICATION Spec
CONSTANT Family = "gfsingle"
INVARIANT Holds
CHECK_DEADLOCK FALSE
