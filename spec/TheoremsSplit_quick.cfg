SPECIFICATION Spec
CONSTANT MaxLen = 6
INVARIANT Holds
CHECK_DEADLOCK FALSE
