---------------------------- MODULE PolyseedThreadsInd ----------------------------
(* Inductive-invariant check with Apalache for the footprint model of PolyseedThreads.tla, for an
   UNBOUNDED number of calls per thread (MaxCalls dropped): in the configured phase (no configuration
   calls) no access in flight is a write, hence NoRace, and every read sees version 0 (SerialResults). *)
EXTENDS Integers, Sequences, FiniteSets

Threads == {1, 2, 3}
Objects == {"deps", "mask", "mul2"}
WorkOps == {"Create", "Decode", "Load", "Encode", "Crypt", "Keygen", "Free", "Store"}

\* @type: (Str) => Seq({obj: Str, w: Bool});
Footprint(op) ==
    IF op = "Create" THEN << [obj |-> "deps", w |-> FALSE], [obj |-> "mask", w |-> FALSE], [obj |-> "mul2", w |-> FALSE] >>
    ELSE IF op \in {"Decode", "Load"} THEN << [obj |-> "deps", w |-> FALSE], [obj |-> "mul2", w |-> FALSE], [obj |-> "mask", w |-> FALSE] >>
    ELSE IF op = "Crypt" THEN << [obj |-> "deps", w |-> FALSE], [obj |-> "mul2", w |-> FALSE] >>
    ELSE IF op = "Store" THEN << >>
    ELSE << [obj |-> "deps", w |-> FALSE] >>

VARIABLES
    \* @type: Int -> {op: Str, i: Int};
    cur,
    \* @type: Int -> {obj: Str, w: Bool};
    acc,
    \* @type: Str -> Int;
    version,
    \* @type: Int -> Set(<<Str, Int>>);
    seen

NoAcc == [obj |-> "none", w |-> FALSE]
Idle == [op |-> "idle", i |-> 0]

Init == /\ cur = [t \in Threads |-> Idle]
        /\ acc = [t \in Threads |-> NoAcc]
        /\ version = [o \in Objects |-> 0]
        /\ seen = [t \in Threads |-> {}]

BeginCall(t) ==
    /\ cur[t] = Idle
    /\ \E op \in WorkOps : cur' = [cur EXCEPT ![t] = [op |-> op, i |-> 1]]
    /\ seen' = [seen EXCEPT ![t] = {}]
    /\ UNCHANGED <<acc, version>>

BeginAccess(t) ==
    /\ cur[t] # Idle /\ acc[t] = NoAcc
    /\ cur[t].i <= Len(Footprint(cur[t].op))
    /\ acc' = [acc EXCEPT ![t] = Footprint(cur[t].op)[cur[t].i]]
    /\ UNCHANGED <<cur, version, seen>>

EndAccess(t) ==
    /\ acc[t] # NoAcc
    /\ IF acc[t].w
       THEN version' = [version EXCEPT ![acc[t].obj] = @ + 1] /\ seen' = seen
       ELSE version' = version /\ seen' = [seen EXCEPT ![t] = @ \cup {<<acc[t].obj, version[acc[t].obj]>>}]
    /\ acc' = [acc EXCEPT ![t] = NoAcc]
    /\ cur' = [cur EXCEPT ![t] = [op |-> cur[t].op, i |-> cur[t].i + 1]]

EndCall(t) ==
    /\ cur[t] # Idle /\ acc[t] = NoAcc
    /\ cur[t].i > Len(Footprint(cur[t].op))
    /\ cur' = [cur EXCEPT ![t] = Idle]
    /\ UNCHANGED <<acc, version, seen>>

Next == \E t \in Threads : BeginCall(t) \/ BeginAccess(t) \/ EndAccess(t) \/ EndCall(t)

IndInv ==
    /\ \A t \in Threads : cur[t].op \in WorkOps \cup {"idle"} /\ cur[t].i \in 0..4
    /\ \A t \in Threads : (cur[t].op = "idle") => (cur[t].i = 0 /\ acc[t] = NoAcc)
    /\ \A t \in Threads : (cur[t].op # "idle") => cur[t].i \in 1..(Len(Footprint(cur[t].op)) + 1)
    /\ \A t \in Threads : (acc[t] # NoAcc) =>
            (cur[t].op # "idle" /\ cur[t].i <= Len(Footprint(cur[t].op)) /\ acc[t] = Footprint(cur[t].op)[cur[t].i])
    /\ \A t \in Threads : acc[t].obj \in Objects \cup {"none"} /\ ~acc[t].w          \* ReadOnlyPhase
    /\ \A o \in Objects : version[o] = 0
    /\ \A t \in Threads : \A p \in seen[t] : p[2] = 0                               \* SerialResults

\* the same as a generator of all states satisfying it (Apalache needs assignments)
IndInit ==
    /\ cur \in [Threads -> [op : WorkOps \cup {"idle"}, i : 0..4]]
    /\ acc \in [Threads -> [obj : Objects \cup {"none"}, w : BOOLEAN]]
    /\ version \in [Objects -> 0..3]
    /\ seen \in [Threads -> SUBSET (Objects \X (0..1))]
    /\ IndInv

NoRace ==
    \A t, u \in Threads :
        (t # u /\ acc[t] # NoAcc /\ acc[u] # NoAcc /\ acc[t].obj = acc[u].obj) => (~acc[t].w /\ ~acc[u].w)
=============================================================================
