---------------------------- MODULE TheoremsSplit ----------------------------
(***************************************************************************)
(* Property C09 on the specification:                                       *)
(*  (1) the declarative and the operational reading of token splitting      *)
(*      agree on ALL strings up to a length over the alphabet {a, b, ' '};  *)
(*  (2) automatic decoding is determined by the ten explicit decodings      *)
(*      exactly as the property states, with the stated precedence, on      *)
(*      token sequences enumerated from a token alphabet that contains      *)
(*      words of several lists, abbreviations, cross-language prefixes,     *)
(*      shared Chinese words, garbage and the empty token (real lists).     *)
(***************************************************************************)
EXTENDS Integers, Sequences, FiniteSets, TLC, Bytes, GF2048, SeedCodec, Wordlists, Phrase

CONSTANT MaxLen

VARIABLE c
vars == <<c>>

Alphabet == <<97, 98, 32>>

RECURSIVE StringNo(_, _)
StringNo(len, n) == IF len = 0 THEN <<>> ELSE <<Alphabet[(n % 3) + 1]>> \o StringNo(len - 1, n \div 3)

\* token alphabet (byte strings)
WordAt(lid, i) == LangOf(lid).words[i]
TokenPool ==
    << WordAt("en", 1), SubSeq(WordAt("en", 1), 1, 4), WordAt("es", 900), SubSeq(WordAt("es", 900), 1, 4), WordAt("fr", 77),
       WordAt("zh_s", 1), WordAt("zh_t", 1), WordAt("zh_s", 2000), WordAt("jp", 5), WordAt("ko", 6), WordAt("it", 3), SubSeq(WordAt("it", 3), 1, 3),
       <<120, 120, 120>>, <<>>, WordAt("pt", 10), WordAt("cs", 20) >>
NTok == Len(TokenPool)

\* a 16-token sequence: positions 1..3 vary over the pool, the rest repeat position p's token or a fixed filler
SeqOf(a, b, d, filler) ==
    Mat([j \in 1..16 |-> IF j = 1 THEN TokenPool[a] ELSE IF j = 2 THEN TokenPool[b] ELSE IF j = 3 THEN TokenPool[d]
                         ELSE TokenPool[filler]], 16)

Cases == [k : {"str"}, len : 0..MaxLen, i : 0..(3 ^ MaxLen - 1), a : {0}, b : {0}]
         \cup [k : {"seq"}, len : {16}, i : 1..NTok, a : 1..NTok, b : 1..NTok]
         \cup [k : {"count"}, len : 0..18, i : 1..NTok, a : {1}, b : {1}]

-----------------------------------------------------------------------------
SplitLemma(s) ==
    /\ Tokens(s) = TokensOp(s)
    \* a single trailing space is ignored; any other space separates (possibly empty) tokens
    /\ (s # <<>> /\ s[Len(s)] # 32) => Tokens(s \o <<32>>) = Tokens(s)
    /\ (s # <<>> /\ s[Len(s)] # 32) => Len(Tokens(s \o <<32, 32>>)) = Len(Tokens(s)) + 1
    /\ (s # <<>> /\ s[Len(s)] = 32) => Len(Tokens(s \o <<32>>)) = Len(Tokens(s)) + 1
    /\ Len(Tokens(<<32>> \o s)) = Len(Tokens(s)) + 1                 \* a leading space is an empty first token
    /\ Join(Tokens(s), <<32>>) = (IF s # <<>> /\ s[Len(s)] = 32 THEN SubSeq(s, 1, Len(s) - 1) ELSE s)

\* the outcome of automatic decoding against the ten explicit outcomes
AgreesOn(toks, coin, auto, ex) ==
    LET full == { k \in LangNos : ex[k].st # StLang /\ ex[k].st # StNumWords }
    IN IF Len(toks) # NW
       THEN auto.st = StNumWords /\ \A k \in LangNos : ex[k].st = StNumWords        \* word count first
       ELSE /\ full = FullLangs(toks)
            /\ (full = {} => auto.st = StLang)                                        \* nobody recognises it
            /\ (Cardinality(full) >= 2 => auto.st = StMultLang)                       \* regardless of checksums
            /\ (Cardinality(full) = 1 => auto = ex[CHOOSE k \in full : TRUE])         \* exactly that outcome
            /\ (auto.st = StOK => Cardinality(full) = 1)

AutoLemma(toks, coin) ==
    /\ \A af \in {FALSE, TRUE} :
          AgreesOn(toks, coin, OutcomeOfTokens(toks, coin, 0, 7, af),
                   Mat([k \in LangNos |-> OutcomeOfTokens(toks, coin, k, 7, af)], NLangs))
    \* memory is reported only after language and checksum; unsupported only after memory
    /\ OutcomeOfTokens(toks, coin, 0, 7, TRUE).st \in {StNumWords, StLang, StMultLang, StChecksum, StMemory}
    /\ OutcomeOfTokens(toks, coin, 0, 0, FALSE).st = StMemory => FALSE

CountSeq(n, t) == Mat([j \in 1..n |-> TokenPool[t]], n)

Holds ==
    CASE c.k = "group" -> TRUE
      [] c.k = "str" -> (c.i < 3 ^ c.len) => SplitLemma(StringNo(c.len, c.i))
      [] c.k = "seq" -> AutoLemma(SeqOf(c.i, c.a, c.b, c.i), 0)
      [] c.k = "count" -> AutoLemma(CountSeq(c.len, c.i), 0)

Init == c \in [k : {"group"}, len : {0}, i : 0..63, a : {0}, b : {0}]
Next == /\ c.k = "group"
        /\ c' \in { x \in Cases : (x.i + x.a + x.b) % 64 = c.i }
Spec == Init /\ [][Next]_vars
=============================================================================
