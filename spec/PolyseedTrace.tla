---------------------------- MODULE PolyseedTrace ----------------------------
(***************************************************************************)
(* Trace validation: events recorded from the real C library by the         *)
(* conformance driver are replayed through the actions of Polyseed.tla.     *)
(* Nothing is searched for - every argument and result is logged - so TLC   *)
(* evaluates, one state per trace line.                                     *)
(*                                                                          *)
(*   TRACE   (env) NDJSON file                                              *)
(*   FOCUS   (env) property id of the running check, or ALL                 *)
(*   GOLDEN  (env) golden word lists                                        *)
(*                                                                          *)
(* Attribution: a failed condition whose tag set contains FOCUS rejects the *)
(* trace (printing REJECT); a failed condition that formalises only other   *)
(* properties prints FOREIGN and the rest of that execution (up to the next *)
(* Reset event) is consumed unjudged, so that one check never reports       *)
(* another property's violation or its follow-up effects.  A failed         *)
(* environment assumption prints ENVFAULT and rejects (the runner turns it   *)
(* into an infrastructure error, never into a violation).                   *)
(***************************************************************************)
EXTENDS Integers, Sequences, FiniteSets, TLC, Json, IOUtils, Bytes, GF2048, SeedCodec, Wordlists, Phrase

TraceLog == ndJsonDeserialize(IOEnv.TRACE)
Focus    == IOEnv.FOCUS
N        == Len(TraceLog)

StrSize == TraceLog[1].strsize

VARIABLES mask, deps, heap, blocks, call,
          l,        \* next trace line
          skip,     \* consuming an execution unjudged after a foreign failure
          proj,     \* handle |-> expected projection (cache of Projection(SeedOf(h)))
          issued,   \* string register |-> [seed, coin, lang, str]: phrases the library itself produced (history)
          lastAuto  \* the most recent automatic decoding: [str, coin, fail, mask, lang, st] (history)

INSTANCE Polyseed

tvars == <<mask, deps, heap, blocks, call, l, skip, proj, issued, lastAuto>>

Ev == TraceLog[l]

\* x: the last explicit decoding per language (language number -> [str, coin, fail, mask, st])
NoAuto == [str |-> <<0 - 1>>, coin |-> 0, fail |-> 0, mask |-> 0, lang |-> 0, st |-> 0, x |-> <<>>]

-----------------------------------------------------------------------------
(* verdict on a sequence of conditions                                      *)

Failed(conds) == SelectSeq(conds, LAMBDA c : ~c.ok)

Relevant(c) == Focus = "ALL" \/ Focus \in c.p

\* conditions that observe the call without determining the model's next state: when such a
\* condition fails and belongs to another property, judging simply continues
SoftNames == { "no-secret-residue-on-dead-stack", "input-not-modified", "key-left-as-the-kdf-wrote-it",
               "freed-block-is-zero", "freed-block-wiped-through-injected-memzero", "exactly-32-bytes-written",
               "output-terminated-inside-buffer", "returned-length-is-string-length", "memzero-through-injected",
               "keygen-caller-buffer", "query-uses-no-dependency", "store-uses-no-dependency",
               "inject-uses-no-dependency", "separators-and-flags", "published-languages-in-published-order",
               "ten-languages", "detected-language", "kdf-inputs-of-the-seed", "secret-padding-is-zero", "serialisation-of-the-seed",
               "birthday-of-the-seed", "features-of-the-seed", "birthday-value", "feature-query",
               "encrypted-flag", "enable-returns-number-of-user-bits", "serialised-bytes",
               "keygen-password-32-bytes", "keygen-password", "keygen-salt-32-bytes", "keygen-salt",
               "keygen-iterations", "keygen-keylen", "crypt-salt", "crypt-iterations", "crypt-keylen",
               "crypt-password-length", "crypt-password", "phrase-bytes", "phrase-fits-the-public-buffer",
               "nfc-of-the-decomposed-phrase", "word-table-equals-published-list",
               "token-resolves-by-the-published-rule", "doubling-rule-is-multiplication-by-x",
               "polynomial-evaluation-at-x", "no-other-source-of-time-randomness-or-memory",
               \* a dependency consulted where it has no business: nothing the model keeps depends on the answer, so
               \* judging can go on (and see, say, the block such a call goes on to leak)
               "time-only-in-create", "rand-only-in-create", "kdf-only-in-keygen-and-crypt",
               "nfkd-only-for-string-arguments", "nfc-only-in-encode-of-composing-language" }

VerdictOfBad(bad) ==
    IF bad = <<>> THEN "ok"
    ELSE IF \E i \in 1..Len(bad) : "ENV" \in bad[i].p
         THEN IF PrintT(<<"ENVFAULT", l, bad[1].n, Ev.e>>) THEN "reject" ELSE "reject"
    ELSE IF \E i \in 1..Len(bad) : Relevant(bad[i])
         THEN IF PrintT(<<"REJECT", l, bad[CHOOSE i \in 1..Len(bad) : Relevant(bad[i])].n,
                         bad[CHOOSE i \in 1..Len(bad) : Relevant(bad[i])].p, Ev.e>>) THEN "reject" ELSE "reject"
    ELSE IF PrintT(<<"FOREIGN", l, bad[1].n, bad[1].p, Ev.e>>)
         THEN (IF \A i \in 1..Len(bad) : bad[i].n \in SoftNames THEN "ok" ELSE "foreign")
         ELSE "foreign"

Verdict(conds) == VerdictOfBad(Failed(conds))

Advance == l' = l + 1


\* a foreign failure: stop judging this execution
GoSkip == /\ skip' = TRUE
          /\ Advance
          /\ UNCHANGED <<mask, deps, heap, blocks, call, proj, issued, lastAuto>>

\* (operator parameters are evaluated once by TLC; LET definitions once per use)
OnVerdict(v, okStep) == CASE v = "ok" -> okStep [] v = "foreign" -> GoSkip [] OTHER -> FALSE

-----------------------------------------------------------------------------
(* arguments of Begin events, as the contract wants them                    *)

ArgsOf(e) ==
    CASE e.op = "Inject"  -> [set |-> [i \in 1..8 |-> SubSeq(e.set, i, i)]]
      [] e.op = "Enable"  -> [lo |-> e.lo, hi |-> e.hi]
      [] e.op = "Langs"   -> [x |-> 0]
      [] e.op = "Create"  -> [lo |-> e.lo, hi |-> e.hi]
      [] e.op = "Free"    -> [h |-> e.h]
      [] e.op = "Encode"  -> [h |-> e.h, lang |-> LangNo(e.lang), coin |-> e.coin]
      [] e.op = "Decode"  -> [str |-> e.str, len |-> e.len, coin |-> e.coin, lang |-> 0, wantlang |-> e.wantlang, sreg |-> e.sreg, fail |-> e.fail, idn |-> e.idn]
      [] e.op = "DecodeX" -> [str |-> e.str, len |-> e.len, coin |-> e.coin, lang |-> LangNo(e.lang), wantlang |-> FALSE, sreg |-> e.sreg, fail |-> e.fail, idn |-> e.idn]
      [] e.op = "Store"   -> [h |-> e.h]
      [] e.op = "Load"    -> [buf |-> e.buf]
      [] e.op = "Crypt"   -> [h |-> e.h, pw |-> e.pw, len |-> e.len]
      [] e.op = "Keygen"  -> [h |-> e.h, coin |-> e.coin, size |-> e.size, size_mid |-> e.size_mid, size_hi |-> e.size_hi]
      [] e.op = "Birthday" -> [h |-> e.h]
      [] e.op = "Feature" -> [h |-> e.h, lo |-> e.lo, hi |-> e.hi]
      [] e.op = "IsEncrypted" -> [h |-> e.h]

-----------------------------------------------------------------------------
(* projection of the live seeds, read back through the public API           *)

TargetTags(op) ==
    CASE op = "Create" -> {"C18", "C11", "C10"}
      [] op \in {"Decode", "DecodeX"} -> {"C08", "C09"}
      [] op = "Load" -> {"C06"}
      [] op = "Crypt" -> {"C12"}
      [] OTHER -> {}

\* "identical ... in key-derivation inputs" is part of the phrase round trip (C01) and of the storage round trip
\* (C06): a decoded or loaded seed whose KDF inputs are off (dirty padding ...) breaks them, a created one does not
PathTags(tt) == (tt \cap {"C06"}) \cup (IF "C08" \in tt THEN {"C01"} ELSE {})

ObservedSeed(p) ==      \* the abstract seed as the KDF inputs show it
    [ secret   |-> SubSeq(p.pw, 1, 19),
      birthday |-> (p.salt[21] + 256 * p.salt[22]) % 1024,
      features |-> p.salt[25] % 32 ]

WellShapedKdfInputs(p) ==
    /\ Len(p.pw) = 32 /\ Len(p.salt) = 32
    /\ SubSeq(p.pw, 20, 32) = Zeros(13)
    /\ p.salt = KeygenSalt(ObservedSeed(p), 0)

\* Two independent observations of a live seed: its serialised image and its KDF inputs.  If one of them
\* agrees with the model's seed, the seed is right and the other observation's function is at fault.
EntryCondsObs(p, s, tt, imgOK, kdfOK) ==
    \* (C04: "the same seed reached by any path - created, decoded, loaded, decrypted - produces identical KDF inputs":
    \* a seed that a decoder, the loader or the password operation leaves in a state neither observation recognises)
    << Cond("seed-state", {"C13"} \cup tt \cup (IF tt \cap {"C08", "C06", "C12"} # {} THEN {"C04"} ELSE {}), imgOK \/ kdfOK),
       Cond("serialisation-of-the-seed", {"C06", "C13"} \cup tt, kdfOK => imgOK),
       Cond("kdf-inputs-of-the-seed", {"C04", "C13"} \cup PathTags(tt), imgOK => kdfOK),
       \* the 13 bytes after the secret are part of the KDF password: a constructor that leaves what the
       \* allocator handed out there relies on fresh memory being zero
       Cond("secret-padding-is-zero", {"C04", "C13", "C15"} \cup PathTags(tt), Len(p.pw) = 32 => SubSeq(p.pw, 20, 32) = Zeros(13)),
       Cond("birthday-of-the-seed", {"C11", "C13"}, FromLimbs16(p.bd) = TimeOfBirthday(s.birthday)),
       Cond("features-of-the-seed", {"C10", "C13"},
            p.ft = s.features % 8 /\ p.enc = (IF IsEncrypted(s.features) THEN 1 ELSE 0)) >>
EntryCondsShaped(p, s, tt) ==
    EntryCondsObs(p, s, tt, p.img = StoreImage(s), p.pw = KeygenPw(s) /\ p.salt = KeygenSalt(s, 0))

\* conditions for one logged live entry p against the model seed s; tt = op tags if p is the call's target
EntryConds(p, s, tt) ==
    IF p.h \in DOMAIN proj /\
       [img |-> p.img, pw |-> p.pw, salt |-> p.salt, bd |-> FromLimbs16(p.bd), ft |-> p.ft, enc |-> p.enc]
         = [img |-> proj[p.h].img, pw |-> proj[p.h].pw, salt |-> proj[p.h].salt, bd |-> proj[p.h].bd,
            ft |-> proj[p.h].ft, enc |-> proj[p.h].enc]
    THEN <<>>
    ELSE EntryCondsShaped(p, s, tt)

RECURSIVE LiveConds(_, _, _, _)
LiveCondsWith(live, nh, t) == LiveConds(live, 1, nh, t)
LiveConds(live, i, newheap, target) ==
    IF i > Len(live) THEN <<>>
    ELSE LET p == live[i]
         IN (IF p.h \in DOMAIN newheap
             THEN EntryConds(p, newheap[p.h].seed, IF p.h = target THEN TargetTags(call.op) ELSE {})
             ELSE << Cond("live-seed-known-to-the-model", {"C13"}, FALSE) >>)
            \o LiveConds(live, i + 1, newheap, target)

-----------------------------------------------------------------------------
(* trace actions                                                            *)

\* the public size constants behave as numbers inside a caller's expressions (n * POLYSEED_STR_SIZE sizes an array of
\* phrase buffers): a macro that expands to an unparenthesised sum does not
TStart ==
    /\ Ev.e = "Start"
    /\ OnVerdict(Verdict(<< Cond("public-size-constants-are-numbers", {"C17", "C14"},
                                /\ Ev.strsize_x3 = 3 * Ev.strsize /\ Ev.strsize_rem7 = 1000 % Ev.strsize
                                /\ Ev.size_x3 = 96 /\ Ev.numwords_x3 = 48 /\ Ev.strsizeof = Ev.strsize),
                            \* the members of the dependency structure in the published order (C18: "the functions given at
                            \* injection" - given by a caller who fills the structure as published)
                            Cond("dependency-structure-as-published", {"C18"}, Ev.deporder) >>),
                 Advance /\ UNCHANGED <<mask, deps, heap, blocks, call, skip, proj, issued, lastAuto>>)

TReset ==
    /\ Ev.e = "Reset"
    /\ mask' = 0
    /\ deps' = DepsOfSet(<<"A", "A", "A", "A", "A", "A", "A", "A">>)
    /\ heap' = <<>> /\ blocks' = <<>> /\ call' = None /\ proj' = <<>> /\ issued' = <<>> /\ lastAuto' = NoAuto
    /\ skip' = FALSE
    /\ Advance

TEnd ==
    /\ Ev.e = "End"
    /\ IF Ev.complete THEN TRUE
       ELSE skip \/ (PrintT(<<"REJECT", l, "trace-cut-short", {"C14", "C13"}, "End">>) /\ FALSE)
    /\ Advance
    /\ UNCHANGED <<mask, deps, heap, blocks, call, skip, proj, issued, lastAuto>>

ObserverFault == Ev.e = "Fault" /\ Ev.what \in {"global-write", "race", "serial-mismatch"}

TSkip ==
    /\ skip
    /\ Ev.e \notin {"Reset", "End", "Start"}
    /\ ~ObserverFault
    /\ Advance
    /\ UNCHANGED <<mask, deps, heap, blocks, call, skip, proj, issued, lastAuto>>

FaultTags(op) ==
    CASE op \in {"decode", "decodex", "crypt", "load"} -> {"C14", "C13", "C19"}
      [] op = "find" -> {"C08", "C07", "C14", "C19", "C13"}
      [] op = "encode" -> {"C17", "C14", "C01", "C13"}
      [] op = "inject" -> {"C19", "C07", "C13", "C14"}
      [] OTHER -> {"C13", "C14"}

\* library state written by an operation that has none to write: in concurrent use the operation's own outputs are
\* at the mercy of the other threads (a shared salt or phrase buffer ...), so its own property is gone as well
\* (and whatever such an operation parks in static storage outlives the call: secrets, indices, phrase text,
\* passwords and masks are all these operations handle - C16)
GlobalWriteTags(op) ==
    {"C16"} \cup
    CASE op = "keygen" -> {"C04"}
      [] op = "encode" -> {"C03", "C01", "C17"}
      [] op \in {"decode", "decodex"} -> {"C09", "C01", "C08", "C02", "C05", "C07"}
      [] op = "crypt" -> {"C12"}
      [] op \in {"load", "store"} -> {"C06"}
      [] op = "create" -> {"C18", "C11", "C10"}
      [] op = "free" -> {"C15"}
      [] OTHER -> {}

OwnPhraseCall ==
    /\ call.op \in {"Decode", "DecodeX"}
    /\ call.a.sreg \in DOMAIN issued
    /\ issued[call.a.sreg].str = call.a.str

\* observers of the concurrent runs: a store into write-protected library data, a ThreadSanitizer report
TFault ==
    /\ ~skip \/ ObserverFault
    /\ Ev.e = "Fault"
    /\ OnVerdict(Verdict(IF Ev.what = "serial-mismatch"
                         THEN << Cond("thread-results-equal-serial-execution", {"C20"}, FALSE) >>
                         ELSE IF Ev.what = "global-write"
                         THEN << Cond("library-static-data-written-while-threads-run", {"C20", "C13"} \cup GlobalWriteTags(Ev.op), FALSE) >>
                         ELSE IF Ev.what = "race"
                         THEN << Cond("data-race-reported", {"C20"}, FALSE) >>
                         \* (C15: "if the allocator fails during any call, that call returns the memory status without crashing")
                         ELSE << Cond("call-crashed-or-hung", FaultTags(Ev.op) \cup (IF Ev.op = "threads" THEN {"C20"} ELSE {})
                                                              \cup (IF call # None /\ AllocFailed THEN {"C15"} ELSE {})
                                                              \* (a phrase the library issued, fed back to a decoder)
                                                              \cup (IF call # None /\ OwnPhraseCall THEN {"C17", "C01"} ELSE {}), FALSE) >>),
                 FALSE)

TBegin ==
    /\ ~skip
    /\ Ev.e = "Begin"
    /\ OnVerdict(Verdict(<< Cond("no-call-in-flight", {"C13"}, call = None),
                            Cond("handle-is-live", {"HARNESS"},
                                 (UsesHandle(Ev.op) /\ ~(Ev.op = "Free" /\ Ev.h = 0)) => Ev.h \in DOMAIN heap) >>),
                 Begin(Ev.op, ArgsOf(Ev)) /\ Advance /\ UNCHANGED <<skip, proj, issued, lastAuto>>)

DepKinds == {"Alloc", "Free", "Memzero", "Rand", "Time", "Kdf", "Nfkd", "Nfc", "Forbidden"}

TDep ==
    /\ ~skip
    /\ Ev.e \in DepKinds
    /\ OnVerdict(Verdict(IF call = None THEN << Cond("dependency-used-outside-a-call", {"C13", "C18"}, FALSE) >>
                         ELSE DepConds(Ev)),
                 DepUpdate(Ev) /\ Advance /\ UNCHANGED <<skip, proj, issued, lastAuto>>)

TargetOf(r) ==
    IF call.op \in ConstructorOps THEN r.h
    ELSE IF call.op = "Crypt" THEN call.a.h ELSE 0

LiveSet(r) == { r.live[i].h : i \in 1..Len(r.live) }

\* C01 / C05 as a relation between the library's own encoder and decoders: a phrase the library issued for
\* (seed, coin, language) must decode for that coin (and language) to that seed, and for no other coin
RoundTripConds(r, exp) ==
    IF call.op \in {"Decode", "DecodeX"} /\ call.a.sreg \in DOMAIN issued /\ issued[call.a.sreg].str = call.a.str
          /\ (call.op = "DecodeX" => call.a.lang = issued[call.a.sreg].lang)
    THEN LET it == issued[call.a.sreg]
         IN IF call.a.coin = it.coin
            \* (C17: "every phrase the library produces can be fed back to the decoder")
            \* (C07: "every word, typed in full, is recognised as its own index and no other"; C08: "a valid phrase ...
            \* decodes to the same seed")
            THEN << Cond("own-phrase-decodes-to-the-same-seed", {"C01", "C05", "C13", "C17", "C07", "C08"},
                         (~AllocFailed /\ Supported(it.seed.features, mask)) =>
                            \/ (r.st = StOK /\ exp.st = StOK /\ exp.seed = it.seed
                                   /\ (call.op = "Decode" => exp.lang = it.lang))
                            \/ (call.op = "Decode" /\ r.st = StMultLang /\ exp.st = StMultLang)) >>
            ELSE << Cond("own-phrase-rejected-for-another-coin", {"C05", "C13"},
                         \/ r.st = StChecksum
                         \/ (call.op = "Decode" /\ r.st = StMultLang /\ exp.st = StMultLang)) >>
    ELSE <<>>

\* (the other direction: the one language that recognises all tokens was tried explicitly before, on the same
\* string, coin, mask and allocator behaviour: automatic decoding must report exactly that outcome)
AgreeWithExplicit(r, e) ==
    IF e.str = call.a.str /\ e.coin = call.a.coin /\ e.fail = call.a.fail /\ e.mask = mask
    THEN << Cond("automatic-decoding-agrees-with-explicit", {"C09", "C13"}, r.st = e.st) >>
    ELSE <<>>

\* C09 as a relation between the two decoders: on the same string, coin, enabled mask and allocator behaviour,
\* explicit decoding with the one language that recognises all tokens gives exactly the automatic outcome
AgreementConds(r, exp) ==
    IF call.op = "DecodeX" /\ lastAuto.lang # 0 /\ lastAuto.lang = call.a.lang /\ lastAuto.str = call.a.str
          /\ lastAuto.coin = call.a.coin /\ lastAuto.fail = call.a.fail /\ lastAuto.mask = mask
    THEN << Cond("explicit-decoding-agrees-with-automatic", {"C09", "C13"}, r.st = lastAuto.st) >>
    ELSE IF call.op = "Decode" /\ exp.lang # 0 /\ exp.lang \in DOMAIN lastAuto.x
    THEN AgreeWithExplicit(r, lastAuto.x[exp.lang])
    ELSE <<>>

LastAutoAfter(r, exp) ==
    IF call.op = "Decode"
    THEN [str |-> call.a.str, coin |-> call.a.coin, fail |-> call.a.fail, mask |-> mask,
          lang |-> (IF r.st \in {StNumWords, StLang, StMultLang} THEN 0 ELSE exp.lang), st |-> r.st, x |-> lastAuto.x]
    ELSE IF call.op = "DecodeX"
    THEN [lastAuto EXCEPT !.x = (call.a.lang :> [str |-> call.a.str, coin |-> call.a.coin, fail |-> call.a.fail,
                                                  mask |-> mask, st |-> r.st]) @@ lastAuto.x]
    ELSE lastAuto

IssuedAfter(r) ==
    IF call.op = "Encode" /\ r.str # <<>>
    THEN (r.sreg :> [seed |-> SeedOf(call.a.h), coin |-> call.a.coin, lang |-> call.a.lang, str |-> r.str]) @@ issued
    ELSE issued

TRetLive(r, nh, t, exp) ==
    OnVerdict(Verdict(<< Cond("live-seeds-are-the-model's", {"C13", "C15"},
                             r.live = <<>> \/ LiveSet(r) = DOMAIN nh) >>
                      \o LiveCondsWith(r.live, nh, IF t # 0 /\ t \in DOMAIN nh THEN t ELSE 0)),
              /\ ReturnUpdate(r, nh) /\ Advance /\ skip' = skip /\ issued' = IssuedAfter(r) /\ lastAuto' = LastAutoAfter(r, exp)
              /\ proj' = [h \in DOMAIN nh |-> IF h \in DOMAIN proj /\ h # t THEN proj[h]
                                               ELSE Projection(nh[h].seed)])

TRetEval(r, ev) == OnVerdict(Verdict(ev.conds \o RoundTripConds(r, ev.exp) \o AgreementConds(r, ev.exp)),
                             TRetLive(r, ev.heap, TargetOf(r), ev.exp))

TRet ==
    /\ ~skip
    /\ Ev.e = "Ret"
    /\ TRetEval(Ev, IF call # None /\ call.op = Ev.op THEN RetEval(Ev)
                    ELSE [conds |-> << Cond("return-matches-call", {"C13"}, FALSE) >>, heap |-> heap, exp |-> Failure(StLang)])

-----------------------------------------------------------------------------
(* direct observations of internals (optional: absent if refactored away)   *)

Same == UNCHANGED <<mask, deps, heap, blocks, call, skip, proj, issued, lastAuto>>

TStr ==       \* a literal was put into a string register: whatever the library had issued there is gone
    /\ ~skip
    /\ Ev.e = "Str"
    /\ issued' = [k \in (DOMAIN issued) \ {Ev.sreg} |-> issued[k]]
    /\ Advance
    /\ UNCHANGED <<mask, deps, heap, blocks, call, skip, proj, lastAuto>>

TWords ==
    /\ ~skip
    /\ Ev.e = "Words"
    /\ OnVerdict(Verdict(<< Cond("word-table-equals-published-list", {"C07"},
                                \A j \in 1..Len(Ev.w) : Ev.w[j] = LangOf(Ev.lang).words[Ev.from + j]) >>),
                 Advance /\ Same)

FindConds(L, e, f) ==
    << Cond("token-resolves-by-the-published-rule",
            \* (a list word that does not resolve to its own index: two words share an index, and replacing one by the
            \* other goes unnoticed by the checksum - C02)
            IF \E i \in f : L.words[i] = e.tok THEN {"C07", "C08", "C02"} ELSE {"C08"},
            IF f = {} THEN e.ret = 0 - 1 ELSE \E i \in f : e.ret = i - 1) >>

TFind ==
    /\ ~skip
    /\ Ev.e = "Find"
    /\ OnVerdict(Verdict(FindConds(LangOf(Ev.lang), Ev, Find(LangOf(Ev.lang), Ev.tok))), Advance /\ Same)

\* end of a mass sweep of pseudo-random tokens: the accepted ones were logged as Find events before it
TSweep ==
    /\ ~skip
    /\ Ev.e = "Sweep"
    /\ OnVerdict(Verdict(<< Cond("sweep-counts-are-consistent", {"HARNESS"}, Ev.n >= 0 /\ Ev.hits >= 0 /\ Ev.hits <= Ev.n) >>),
                 Advance /\ Same)

\* an optional direct observation of an internal that the tree under test does not offer: nothing to judge
TUnavailable ==
    /\ ~skip
    /\ Ev.e = "Unavailable"
    /\ Advance /\ Same

TMul2 ==
    /\ ~skip
    /\ Ev.e = "Mul2"
    /\ OnVerdict(Verdict(<< Cond("doubling-rule-is-multiplication-by-x", {"C02"},
                                Len(Ev.v) = 2048 /\ \A x \in 0..2047 : Ev.v[x + 1] = MulX(x)) >>),
                 Advance /\ Same)

TEval ==
    /\ ~skip
    /\ Ev.e = "Eval"
    /\ OnVerdict(Verdict(<< Cond("polynomial-evaluation-at-x", {"C02"}, Ev.ret = PolyEval(Ev.c)) >>),
                 Advance /\ Same)

TraceInit ==
    /\ Init
    /\ l = 1 /\ skip = FALSE /\ proj = <<>> /\ issued = <<>> /\ lastAuto = NoAuto

TraceNext ==
    /\ l <= N
    /\ \/ TStart \/ TReset \/ TEnd \/ TSkip \/ TFault \/ TBegin \/ TDep \/ TRet
       \/ TWords \/ TFind \/ TSweep \/ TUnavailable \/ TMul2 \/ TEval \/ TStr

TraceSpec == TraceInit /\ [][TraceNext]_tvars

\* one state per consumed line plus the initial state
TraceAccepted ==
    IF TLCGet("stats").diameter - 1 = N THEN TRUE
    ELSE PrintT(<<"STOPPED", TLCGet("stats").diameter, N>>) /\ FALSE
=============================================================================
