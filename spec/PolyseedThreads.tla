--------------------------- MODULE PolyseedThreads ---------------------------
(***************************************************************************)
(* Property C20 at design level: threads working on disjoint seed objects.  *)
(*                                                                          *)
(* The only process-wide objects of the library are the injected dependency *)
(* table, the enabled-feature mask and the GF(2048) doubling table.  Every  *)
(* API call is the sequence of its accesses to them (its footprint); an     *)
(* access is not atomic (it begins and ends).  Seeds are thread-owned and   *)
(* all other working storage is automatic, so these three are all there is  *)
(* - which the conformance runs check on the code by write-protecting the   *)
(* library's static data while the threads run.                             *)
(*                                                                          *)
(* NoRace: no two in-flight accesses to one object of which one is a write. *)
(* SerialResults: every value a call reads from process-wide state is the   *)
(* configured one, so each thread's outputs are those of a serial run.      *)
(* With configuration calls (enable / inject) allowed concurrently both     *)
(* fail - the negative configuration shows the invariants are not vacuous.  *)
(***************************************************************************)
EXTENDS Integers, Sequences, FiniteSets, TLC

CONSTANTS Threads, MaxCalls, AllowConfig

Objects == {"deps", "mask", "mul2"}

R(o) == [obj |-> o, w |-> FALSE]
Wr(o) == [obj |-> o, w |-> TRUE]

Footprint(op) ==
    CASE op = "Create"  -> << R("deps"), R("mask"), R("mul2") >>          \* alloc/time/rand, feature gate, check value
      [] op = "Decode"  -> << R("deps"), R("mul2"), R("mask") >>          \* nfkd/alloc/memzero, checksum, feature gate
      [] op = "Load"    -> << R("deps"), R("mul2"), R("mask") >>
      [] op = "Encode"  -> << R("deps") >>                                \* nfc, memzero
      [] op = "Crypt"   -> << R("deps"), R("mul2") >>                     \* nfkd, kdf, new check value
      [] op = "Keygen"  -> << R("deps") >>
      [] op = "Free"    -> << R("deps") >>
      [] op = "Store"   -> << >>
      [] op = "Enable"  -> << Wr("mask") >>
      [] op = "Inject"  -> << Wr("deps"), R("deps") >>                    \* copy, then self-test through the table

WorkOps == {"Create", "Decode", "Load", "Encode", "Crypt", "Keygen", "Free", "Store"}
ConfigOps == {"Enable", "Inject"}
Ops == IF AllowConfig THEN WorkOps \cup ConfigOps ELSE WorkOps

VARIABLES
    cur,       \* thread |-> [op, i]: the call in flight and the index of its next access (op = "idle" if none)
    acc,       \* thread |-> the access in progress, or NoAcc
    version,   \* object |-> number of configuration writes so far
    seen,      \* thread |-> versions read by the call in flight
    ncalls     \* thread |-> calls begun

vars == <<cur, acc, version, seen, ncalls>>

NoAcc == [obj |-> "none", w |-> FALSE]
Idle == [op |-> "idle", i |-> 0]

Init == /\ cur = [t \in Threads |-> Idle]
        /\ acc = [t \in Threads |-> NoAcc]
        /\ version = [o \in Objects |-> 0]
        /\ seen = [t \in Threads |-> {}]
        /\ ncalls = [t \in Threads |-> 0]

BeginCall(t) ==
    /\ cur[t] = Idle /\ ncalls[t] < MaxCalls
    /\ \E op \in Ops : cur' = [cur EXCEPT ![t] = [op |-> op, i |-> 1]]
    /\ ncalls' = [ncalls EXCEPT ![t] = @ + 1]
    /\ seen' = [seen EXCEPT ![t] = {}]
    /\ UNCHANGED <<acc, version>>

BeginAccess(t) ==
    /\ cur[t] # Idle /\ acc[t] = NoAcc
    /\ cur[t].i <= Len(Footprint(cur[t].op))
    /\ acc' = [acc EXCEPT ![t] = Footprint(cur[t].op)[cur[t].i]]
    /\ UNCHANGED <<cur, version, seen, ncalls>>

EndAccess(t) ==
    /\ acc[t] # NoAcc
    /\ IF acc[t].w
       THEN version' = [version EXCEPT ![acc[t].obj] = @ + 1] /\ seen' = seen
       ELSE version' = version /\ seen' = [seen EXCEPT ![t] = @ \cup {<<acc[t].obj, version[acc[t].obj]>>}]
    /\ acc' = [acc EXCEPT ![t] = NoAcc]
    /\ cur' = [cur EXCEPT ![t].i = @ + 1]
    /\ UNCHANGED ncalls

EndCall(t) ==
    /\ cur[t] # Idle /\ acc[t] = NoAcc
    /\ cur[t].i > Len(Footprint(cur[t].op))
    /\ cur' = [cur EXCEPT ![t] = Idle]
    /\ UNCHANGED <<acc, version, seen, ncalls>>

Next == \E t \in Threads : BeginCall(t) \/ BeginAccess(t) \/ EndAccess(t) \/ EndCall(t)
Spec == Init /\ [][Next]_vars

NoRace ==
    \A t, u \in Threads :
        (t # u /\ acc[t] # NoAcc /\ acc[u] # NoAcc /\ acc[t].obj = acc[u].obj) => (~acc[t].w /\ ~acc[u].w)

\* every read of process-wide state returns the value configured before the threads started
SerialResults == \A t \in Threads : \A p \in seen[t] : p[2] = 0

\* the configured phase never writes process-wide state at all (what the write-protection observer checks)
ReadOnlyPhase == \A t \in Threads : ~acc[t].w
=============================================================================
