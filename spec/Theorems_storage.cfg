SPECIFICATION Spec
CONSTANT Family = "storage"
INVARIANT Holds
CHECK_DEADLOCK FALSE
