SPECIFICATION Spec
CONSTANT Family = "features"
INVARIANT Holds
CHECK_DEADLOCK FALSE
