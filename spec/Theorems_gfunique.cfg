SPECIFICATION Spec
CONSTANT Family = "gfunique"
INVARIANT Holds
CHECK_DEADLOCK FALSE
