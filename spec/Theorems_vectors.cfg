SPECIFICATION Spec
CONSTANT Family = "vectors"
INVARIANT Holds
CHECK_DEADLOCK FALSE
