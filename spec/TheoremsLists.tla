---------------------------- MODULE TheoremsLists ----------------------------
(***************************************************************************)
(* Exhaustive lemmas over the ten golden word lists (properties C07, C08,   *)
(* C17): one TLC state per (language, word), plus one per language for the  *)
(* phrase-length maxima.                                                    *)
(***************************************************************************)
EXTENDS Integers, Sequences, FiniteSets, TLC, Bytes, Wordlists

CONSTANT StrSize      \* POLYSEED_STR_SIZE of the header under test

VARIABLE c
vars == <<c>>

Cases == [k : {"word"}, l : LangNos, i : 1..ListSize] \cup [k : {"len", "meta"}, l : LangNos, i : {0}]

-----------------------------------------------------------------------------
RECURSIVE LessFrom(_, _, _, _)
\* strict lexicographic order on byte strings; sgn = TRUE compares bytes as signed chars
LessFrom(a, b, i, sgn) ==
    IF i > Len(a) THEN i <= Len(b)
    ELSE IF i > Len(b) THEN FALSE
    ELSE IF a[i] = b[i] THEN LessFrom(a, b, i + 1, sgn)
    ELSE IF sgn THEN ((a[i] + 128) % 256) < ((b[i] + 128) % 256) ELSE a[i] < b[i]

Bucket(L, w) == { Candidates(L, w)[n] : n \in 1..Len(Candidates(L, w)) }

WordLemmaIn(L, i, w, key, others) ==
    /\ IndexSoundAt(L, i)
    /\ Len(w) > 0 /\ IsBytes(w) /\ \A n \in 1..Len(w) : w[n] # 32 /\ w[n] # 0
    /\ Find(L, w) = {i}                                   \* typed in full: own index and no other
    /\ \A j \in others : L.words[j] # w                   \* distinct
    \* sorted lists are strictly increasing under the order their search uses, for both char signednesses
    /\ (L.sorted /\ i < ListSize) =>
          /\ LessFrom(key, KeyOf(L, L.words[i + 1]), 1, FALSE)
          /\ LessFrom(key, KeyOf(L, L.words[i + 1]), 1, TRUE)
    /\ L.prefix =>
          \* letters are single ASCII bytes, accents only combining marks U+0300..U+036F (bytes CC/CD xx)
          /\ \A n \in 1..Len(w) : w[n] < 128 \/ (L.accents /\ w[n] \in {204, 205} \cup 128..191)
          /\ (~L.accents => key = w)
          /\ w[1] < 128
          \* no two words share their first four accent-stripped letters
          /\ \A j \in others : HeadOf(L, L.words[j]) # HeadOfKey(L, key)
          \* no word of four or more letters is a prefix of another
          /\ \A j \in others : ~(Len(key) >= MinPrefix /\ IsPrefixOf(key, KeyOf(L, L.words[j])))
          \* every acceptable abbreviation resolves to this word only
          /\ \A n \in MinPrefix..Len(key) : FindKey(L, SubSeq(key, 1, n), SubSeq(key, 1, n)) = {i}
          \* shorter prefixes resolve to nothing unless they are a whole (short) word
          /\ \A n \in 1..(IF Len(key) < MinPrefix THEN Len(key) ELSE MinPrefix) - 1 :
                \A j \in FindKey(L, SubSeq(key, 1, n), SubSeq(key, 1, n)) : KeyOf(L, L.words[j]) = SubSeq(key, 1, n)
    /\ ~L.prefix => ~L.accents
    \* composed form belongs to the same word
    /\ Len(L.wordsC[i]) > 0 /\ (~L.compose => L.wordsC[i] = w)

WordLemma(l, i) == WordLemmaIn(G(l), i, G(l).words[i], KeyOf(G(l), G(l).words[i]),
                               Bucket(G(l), G(l).words[i]) \ {i})

-----------------------------------------------------------------------------
(* C17: longest phrase per language and form.  Admissible indices: every    *)
(* index at words 1, 2 and 4-16; even indices at word 3 (reserved feature   *)
(* bit clear).                                                              *)

RECURSIVE MaxLenOver(_, _, _, _)
MaxLenOver(ws, i, step, best) ==
    IF i > ListSize THEN best
    ELSE MaxLenOver(ws, i + step, step, IF Len(ws[i]) > best THEN Len(ws[i]) ELSE best)

MaxAll(ws)  == MaxLenOver(ws, 1, 1, 0)
MaxEven(ws) == MaxLenOver(ws, 1, 2, 0)       \* positions 1, 3, 5, ... hold the even indices 0, 2, 4, ...

MaxPhrase(ws, sep) == 15 * MaxAll(ws) + MaxEven(ws) + 15 * Len(sep)

LenLemma(L) ==
    /\ MaxPhrase(L.words, L.sep) < StrSize          \* what polyseed_encode assembles internally
    /\ MaxPhrase(L.wordsC, L.sepC) < StrSize        \* composed output
    /\ MaxPhrase(L.words, <<32>>) < StrSize         \* what the decoders hold after NFKD
    /\ (~L.compose => MaxPhrase(L.words, L.sep) = MaxPhrase(L.wordsC, L.sepC))

MetaLemma(l) ==
    /\ Len(G(l).words) = ListSize /\ Len(G(l).wordsC) = ListSize
    /\ G(l).sep \in {<<32>>, <<227, 128, 128>>}              \* ASCII space or U+3000, which NFKD maps to a space
    /\ G(l).accents => G(l).compose
    /\ \A m \in LangNos : m # l => G(m).id # G(l).id /\ G(m).name_en # G(l).name_en
    /\ NLangs = 10

Holds ==
    CASE c.k = "group" -> TRUE
      [] c.k = "word" -> WordLemma(c.l, c.i)
      [] c.k = "len" -> LenLemma(G(c.l))
      [] c.k = "meta" -> MetaLemma(c.l)

Init == c \in [k : {"group"}, l : {0}, i : 0..63]
Next == /\ c.k = "group"
        /\ c' \in { x \in Cases : x.i % 64 = c.i }
Spec == Init /\ [][Next]_vars
=============================================================================
