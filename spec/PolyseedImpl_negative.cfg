SPECIFICATION ISpec
CONSTANTS
    MaxCalls = 1
    MaxLive = 2
    Pool = "poor"
    IdxWiped = FALSE
    DecodeExpected <- [Polyseed] MCDecodeExpected
    NeedsNfkd <- [Phrase] MCNeedsNfkd
VIEW IView
INVARIANTS ReturnsClean
CHECK_DEADLOCK FALSE
