------------------------------ MODULE Wordlists ------------------------------
(***************************************************************************)
(* The ten published word lists as golden data (a byte-for-byte snapshot of *)
(* the pinned release kept outside the repository, /verif/golden), the      *)
(* token acceptance rule, and the list-level predicates.                    *)
(*                                                                          *)
(* A language record L has: id, name, name_en, sep (separator bytes),       *)
(* sepC (NFC of the separator), sorted, prefix, accents, compose, words     *)
(* (2048 NFKD byte strings), wordsC (their NFC forms, from an independent   *)
(* Unicode implementation) and idx (a hash index used only to make Find     *)
(* fast; its soundness is a checked lemma, it is not trusted).              *)
(***************************************************************************)
EXTENDS Integers, Sequences, FiniteSets, Json, IOUtils, Bytes

Golden == JsonDeserialize(IOEnv.GOLDEN)
GoldenPw == JsonDeserialize(IOEnv.GOLDENPW)

NLangs  == Len(Golden.langs)
LangNos == 1..NLangs
G(k)    == Golden.langs[k]
NBuckets == Golden.nbuckets

IsLangId(id) == \E k \in LangNos : G(k).id = id
LangNo(id)   == CHOOSE k \in LangNos : G(k).id = id
LangOf(id)   == G(LangNo(id))

ListSize == 2048

-----------------------------------------------------------------------------
(* Acceptance rule (property C08).  key(s) drops every non-ASCII byte in    *)
(* the two accent-insensitive languages: after NFKD every accent is a       *)
(* separate combining mark made of bytes >= 0x80 and every letter of these  *)
(* lists is one ASCII byte, so letters and key bytes coincide.              *)

RECURSIVE Ascii(_, _)
Ascii(s, i) == IF i > Len(s) THEN <<>>
               ELSE IF s[i] < 128 THEN <<s[i]>> \o Ascii(s, i + 1) ELSE Ascii(s, i + 1)

KeyOf(L, s) == IF L.accents THEN Ascii(s, 1) ELSE s

MinPrefix == 4

\* kt, kw: keys of the token and of the word
AcceptsKeys(L, tok, w, kt, kw) ==
    IF L.prefix THEN kt = kw \/ (Len(kt) >= MinPrefix /\ IsPrefixOf(kt, kw))
    ELSE IF L.accents THEN kt = kw
    ELSE tok = w

AcceptsWord(L, tok, w) == AcceptsKeys(L, tok, w, KeyOf(L, tok), KeyOf(L, w))

Accepts(L, tok, i) == AcceptsWord(L, tok, L.words[i])     \* i is 1-based

\* hash index: a token accepted for a word has the same head as that word
HeadOfKey(L, k) == IF L.prefix /\ Len(k) > MinPrefix THEN SubSeq(k, 1, MinPrefix) ELSE k
HeadOf(L, s) == HeadOfKey(L, KeyOf(L, s))

RECURSIVE HashFrom(_, _, _)
HashFrom(s, i, h) == IF i > Len(s) THEN h ELSE HashFrom(s, i + 1, (h * 31 + s[i]) % NBuckets)
Hash(s) == HashFrom(s, 1, 7)

Candidates(L, tok) == L.idx[Hash(HeadOf(L, tok)) + 1]

\* the set of (1-based) positions whose word accepts tok
FindAmong(L, tok, kt, cand) ==
    { i \in { cand[c] : c \in 1..Len(cand) } : AcceptsKeys(L, tok, L.words[i], kt, KeyOf(L, L.words[i])) }
FindKey(L, tok, kt) == FindAmong(L, tok, kt, L.idx[Hash(HeadOfKey(L, kt)) + 1])
Find(L, tok) == FindKey(L, tok, KeyOf(L, tok))

\* declarative reading, without the index (used to validate the index on samples)
FindSlow(L, tok) == { i \in 1..ListSize : Accepts(L, tok, i) }

IndexSoundAt(L, i) == \E c \in 1..Len(Candidates(L, L.words[i])) : Candidates(L, L.words[i])[c] = i

-----------------------------------------------------------------------------
(* Joining words into phrases                                               *)

RECURSIVE JoinFrom(_, _, _)
JoinFrom(ws, sep, i) == IF i = Len(ws) THEN ws[i] ELSE ws[i] \o sep \o JoinFrom(ws, sep, i + 1)
Join(ws, sep) == IF ws = <<>> THEN <<>> ELSE JoinFrom(ws, sep, 1)

\* idx : sequence of 0-based word indices
PhraseDecomposed(L, idx) == Join(Mat([j \in 1..Len(idx) |-> L.words[idx[j] + 1]], Len(idx)), L.sep)
PhraseComposed(L, idx)   == Join(Mat([j \in 1..Len(idx) |-> L.wordsC[idx[j] + 1]], Len(idx)), L.sepC)
PhraseOut(L, idx)        == IF L.compose THEN PhraseComposed(L, idx) ELSE PhraseDecomposed(L, idx)
=============================================================================
