SPECIFICATION Spec
CONSTANT Family = "birthday"
INVARIANT Holds
CHECK_DEADLOCK FALSE
