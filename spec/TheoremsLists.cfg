SPECIFICATION Spec
CONSTANT StrSize = 544
INVARIANT Holds
CHECK_DEADLOCK FALSE
