SPECIFICATION Spec
CONSTANT Family = "roundtrip"
INVARIANT Holds
CHECK_DEADLOCK FALSE
