SPECIFICATION ISpec
CONSTANTS
    MaxCalls = 3
    MaxLive = 2
    Pool = "poor"
    IdxWiped = TRUE
    DecodeExpected <- [Polyseed] MCDecodeExpected
    NeedsNfkd <- [Phrase] MCNeedsNfkd
VIEW IView
INVARIANTS Conforms ReturnsClean PcConsistent CanonicalSeeds StorageRoundTrip PhraseRoundTrip NoReservedBit Ledger NoOrphanBlocks DepsWellFormed
PROPERTIES Isolation Stable OnlyEnableChangesMask OnlyInjectChangesDeps FailuresChangeNothing NewSeedsAreSupported
CHECK_DEADLOCK FALSE
