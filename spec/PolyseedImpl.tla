----------------------------- MODULE PolyseedImpl -----------------------------
(***************************************************************************)
(* The implementation's own step structure (src/polyseed.c, src/lang.c at   *)
(* the pinned release plus the four repairs), one action per step between   *)
(* two dependency calls, every exit path explicit - composed with the       *)
(* contract Polyseed.tla as a monitor: each implementation step that talks  *)
(* to a dependency IS a contract step (Begin / Dep / Return), so the        *)
(* contract's conditions are evaluated along every path.                    *)
(*                                                                          *)
(* TLC checks (PolyseedImpl.cfg), for every caller input of the pools and   *)
(* every allocation-fault choice:                                           *)
(*   Conforms   the contract never refuses a step the implementation takes  *)
(*              (status precedence, ledger, wipe-before-free, KDF inputs)   *)
(*   ReturnsClean  at every return, on every exit path, no temporary still  *)
(*              holds secret-derived data (C16's "every exit path")         *)
(*   plus all invariants and action properties of PolyseedMC.               *)
(*                                                                          *)
(* Temporaries (taint): "str" phrase/password text, "words" token pointers, *)
(* "idx" candidate indices of the language scan, "poly" coefficients,       *)
(* "mask" encryption mask.                                                  *)
(***************************************************************************)
EXTENDS PolyseedMC

CONSTANT IdxWiped      \* TRUE: polyseed_phrase_decode wipes its candidate index array (repair 149f315)

VARIABLES pc,       \* label of the next implementation step ("idle" between calls)
          taint,    \* temporaries currently holding secret-derived data
          res,      \* status the call is going to return
          stuck     \* the contract refused a step of the implementation

ivars == <<mask, deps, heap, blocks, call, ncalls, hist, pc, taint, res, stuck>>

Same(vs) == UNCHANGED vs

\* take a contract step if the contract allows it, else record the refusal
TryDep(ev, nextpc) ==
    IF AllOk(DepConds(ev))
    THEN DepUpdate(ev) /\ pc' = nextpc /\ stuck' = stuck /\ hist' = Append(hist, ev)
    ELSE stuck' = TRUE /\ pc' = pc /\ UNCHANGED <<mask, deps, heap, blocks, call, hist>>

StackWipe == [e |-> "Memzero", impl |-> deps.memzero, blk |-> 0 - 1, off |-> 0, len |-> 128]
BlockWipe(b) == [e |-> "Memzero", impl |-> deps.memzero, blk |-> b, off |-> 0, len |-> blocks[b].size]
BlockFree(b) == [e |-> "Free", impl |-> deps.free, blk |-> b, zero |-> TRUE]

MyBlock == CHOOSE b \in OwnBlocks : TRUE

-----------------------------------------------------------------------------
IBegin ==
    /\ pc = "idle" /\ ncalls < MaxCalls /\ ~stuck
    /\ \E c \in CallChoices :
          /\ Begin(c[1], c[2])
          /\ hist' = Append(hist, [e |-> "Begin", op |-> c[1], a |-> c[2]])
          /\ pc' = c[1]
    /\ ncalls' = ncalls + 1
    /\ taint' = {} /\ res' = StOK /\ stuck' = stuck

\* ---- polyseed_create ----
CreateStep ==
    \/ /\ pc = "Create"
       /\ IF ~Supported(MakeFeatures(call.a.lo), mask)
          THEN pc' = "ret" /\ res' = StUnsupported
          ELSE pc' = "Create.alloc" /\ res' = res
       /\ Same(<<mask, deps, heap, blocks, call, ncalls, hist, taint, stuck>>)
    \/ /\ pc = "Create.alloc"
       /\ \E b \in {0, FreshBlock} :
             /\ TryDep([e |-> "Alloc", impl |-> deps.alloc, size |-> 48, blk |-> b], IF b = 0 THEN "ret" ELSE "Create.time")
             /\ res' = IF b = 0 THEN StMemory ELSE res
       /\ Same(<<ncalls, taint>>)
    \/ /\ pc = "Create.time"
       /\ \E t \in ClockPool : TryDep([e |-> "Time", impl |-> deps.time, val |-> t], "Create.rand")
       /\ Same(<<ncalls, taint, res>>)
    \/ /\ pc = "Create.rand"
       /\ \E s \in RandPool : TryDep([e |-> "Rand", impl |-> deps.rand, n |-> 19, out |-> s], "Create.wipe")
       /\ taint' = {"poly"}                               \* polynomial for the check value
       /\ Same(<<ncalls, res>>)
    \/ /\ pc = "Create.wipe"
       /\ TryDep(StackWipe, "ret") /\ taint' = taint \ {"poly"}
       /\ Same(<<ncalls, res>>)

\* ---- polyseed_decode / polyseed_decode_explicit ----
DecodeStatusBeforeAlloc ==      \* what the parsing stages find (abstract phrase)
    LET p == call.a.str
        sel == IF call.op = "DecodeX" THEN call.a.lang ELSE 0
    IN IF p.defect = "count" THEN StNumWords
       ELSE IF p.defect = "word" \/ (sel # 0 /\ sel # p.lang /\ p.defect # "ambig") THEN StLang
       ELSE IF sel = 0 /\ p.defect = "ambig" THEN StMultLang
       ELSE IF ~Valid(ApplyCoin(MCWords(p), call.a.coin)) THEN StChecksum
       ELSE StOK

DecodeStep ==
    \/ /\ pc \in {"Decode", "DecodeX"}
       \* normalise + split (str, words), word search (idx, wiped inside the automatic scan), coin + checksum (poly)
       /\ taint' = {"str", "words"} \cup (IF call.op = "Decode" /\ call.a.str.defect # "count" THEN {"idx"} ELSE {})
       /\ pc' = IF call.op = "Decode" /\ call.a.str.defect # "count" /\ IdxWiped THEN "Decode.idxwipe" ELSE "Decode.check"
       /\ Same(<<mask, deps, heap, blocks, call, ncalls, hist, stuck, res>>)
    \/ /\ pc = "Decode.idxwipe"                      \* MEMZERO_LOC(idx) on both exits of the language scan
       /\ TryDep(StackWipe, "Decode.check") /\ taint' = taint \ {"idx"}
       /\ Same(<<ncalls, res>>)
    \/ /\ pc = "Decode.check"
       /\ taint' = taint \cup {"poly"}
       /\ IF DecodeStatusBeforeAlloc # StOK
          THEN pc' = "Decode.cleanup" /\ res' = DecodeStatusBeforeAlloc
          ELSE pc' = "Decode.alloc" /\ res' = res
       /\ Same(<<mask, deps, heap, blocks, call, ncalls, hist, stuck>>)
    \/ /\ pc = "Decode.alloc"
       /\ \E b \in {0, FreshBlock} :
             /\ TryDep([e |-> "Alloc", impl |-> deps.alloc, size |-> 48, blk |-> b], IF b = 0 THEN "Decode.cleanup" ELSE "Decode.features")
             /\ res' = IF b = 0 THEN StMemory ELSE res
       /\ Same(<<ncalls, taint>>)
    \/ /\ pc = "Decode.features"
       /\ IF ~Supported(Unwords(ApplyCoin(MCWords(call.a.str), call.a.coin)).features, mask)
          THEN pc' = "Decode.freewipe" /\ res' = StUnsupported
          ELSE pc' = "Decode.cleanup" /\ res' = StOK
       /\ Same(<<mask, deps, heap, blocks, call, ncalls, hist, taint, stuck>>)
    \/ /\ pc = "Decode.freewipe" /\ TryDep(BlockWipe(MyBlock), "Decode.free") /\ Same(<<ncalls, taint, res>>)
    \/ /\ pc = "Decode.free" /\ TryDep(BlockFree(MyBlock), "Decode.cleanup") /\ Same(<<ncalls, taint, res>>)
    \/ /\ pc = "Decode.cleanup"                      \* MEMZERO_LOC(str_tmp), (words), (poly): exactly these three
       /\ TryDep(StackWipe, IF Cardinality(taint \cap {"str", "words", "poly"}) <= 1 THEN "ret" ELSE "Decode.cleanup")
       /\ taint' = taint \ {CHOOSE x \in taint \cap {"str", "words", "poly"} : TRUE}
       /\ Same(<<ncalls, res>>)

\* ---- polyseed_load ----
LoadStep ==
    \/ /\ pc = "Load"
       /\ \E b \in {0, FreshBlock} :
             /\ TryDep([e |-> "Alloc", impl |-> deps.alloc, size |-> 48, blk |-> b], IF b = 0 THEN "ret" ELSE "Load.parse")
             /\ res' = IF b = 0 THEN StMemory ELSE res
       /\ Same(<<ncalls, taint>>)
    \/ /\ pc = "Load.parse"
       /\ IF ~WellFormed(call.a.buf)
          THEN pc' = "Load.freewipe" /\ res' = StFormat /\ taint' = taint        \* returns without the cleanup label
          ELSE IF CheckOf(BufSeed(call.a.buf)) # BufFooter(call.a.buf) % 2048
          THEN pc' = "Load.freewipe" /\ res' = StChecksum /\ taint' = {"poly"}
          ELSE IF ~Supported(BufSeed(call.a.buf).features, mask)
          THEN pc' = "Load.freewipe" /\ res' = StUnsupported /\ taint' = {"poly"}
          ELSE pc' = "Load.cleanup" /\ res' = StOK /\ taint' = {"poly"}
       /\ Same(<<mask, deps, heap, blocks, call, ncalls, hist, stuck>>)
    \/ /\ pc = "Load.freewipe" /\ TryDep(BlockWipe(MyBlock), "Load.free") /\ Same(<<ncalls, taint, res>>)
    \/ /\ pc = "Load.free" /\ TryDep(BlockFree(MyBlock), IF taint = {} THEN "ret" ELSE "Load.cleanup") /\ Same(<<ncalls, taint, res>>)
    \/ /\ pc = "Load.cleanup" /\ TryDep(StackWipe, "ret") /\ taint' = {} /\ Same(<<ncalls, res>>)

\* ---- polyseed_free ----
FreeStep ==
    \/ /\ pc = "Free"
       /\ IF call.a.h = 0 THEN pc' = "ret" ELSE pc' = "Free.wipe"
       /\ Same(<<mask, deps, heap, blocks, call, ncalls, hist, taint, res, stuck>>)
    \/ /\ pc = "Free.wipe" /\ TryDep(BlockWipe(heap[call.a.h].blk), "Free.free") /\ Same(<<ncalls, taint, res>>)
    \/ /\ pc = "Free.free" /\ TryDep(BlockFree(heap[call.a.h].blk), "ret") /\ Same(<<ncalls, taint, res>>)

\* ---- polyseed_crypt / polyseed_keygen ----
KdfStep ==
    \/ /\ pc = "Crypt"
       /\ \E m \in MaskPool :
             TryDep([e |-> "Kdf", impl |-> deps.kdf, pwlen |-> Len(call.a.pw), pw |-> call.a.pw, saltlen |-> 16,
                     salt |-> MaskSalt, iter_lo |-> 10000, iter_hi |-> 0, keylen |-> 32, keylen_mid |-> 0, keylen_hi |-> 0, callerkey |-> FALSE, out |-> m], "Crypt.wipe")
       /\ taint' = {"str", "mask", "poly"}
       /\ Same(<<ncalls, res>>)
    \/ /\ pc = "Crypt.wipe"                            \* MEMZERO_LOC(poly), (mask), (pass_norm)
       /\ TryDep(StackWipe, IF Cardinality(taint) <= 1 THEN "ret" ELSE "Crypt.wipe")
       /\ taint' = taint \ {CHOOSE x \in taint : TRUE}
       /\ Same(<<ncalls, res>>)
    \/ /\ pc = "Keygen"
       /\ \E m \in MaskPool :
             TryDep([e |-> "Kdf", impl |-> deps.kdf, pwlen |-> 32, pw |-> KeygenPw(SeedOf(call.a.h)), saltlen |-> 32,
                     salt |-> KeygenSalt(SeedOf(call.a.h), call.a.coin), iter_lo |-> 10000, iter_hi |-> 0,
                     keylen |-> call.a.size, keylen_mid |-> 0, keylen_hi |-> 0, callerkey |-> TRUE, out |-> m], "ret")
       /\ Same(<<ncalls, taint, res>>)

\* ---- polyseed_encode ----
EncodeStep ==
    \/ /\ pc = "Encode"
       /\ taint' = {"poly", "str"}
       /\ IF G(call.a.lang).compose
          THEN TryDep([e |-> "Nfc", impl |-> deps.nfc, in |-> EncodeDecomposed(SeedOf(call.a.h), call.a.lang, call.a.coin),
                       out |-> PhraseComposed(G(call.a.lang), PhraseWords(SeedOf(call.a.h), call.a.coin)),
                       full |-> Len(PhraseComposed(G(call.a.lang), PhraseWords(SeedOf(call.a.h), call.a.coin)))], "Encode.wipe")
          ELSE pc' = "Encode.wipe" /\ Same(<<mask, deps, heap, blocks, call, hist, stuck>>)
       /\ Same(<<ncalls, res>>)
    \/ /\ pc = "Encode.wipe"                           \* MEMZERO_LOC(poly), MEMZERO_LOC(str_tmp)
       /\ TryDep(StackWipe, IF Cardinality(taint) <= 1 THEN "ret" ELSE "Encode.wipe")
       /\ taint' = taint \ {CHOOSE x \in taint : TRUE}
       /\ Same(<<ncalls, res>>)

\* ---- calls without internal steps ----
SimpleStep ==
    /\ pc \in {"Inject", "Enable", "Store", "Feature"}
    /\ pc' = "ret"
    /\ Same(<<mask, deps, heap, blocks, call, ncalls, hist, taint, res, stuck>>)

\* ---- return: the implementation's status and outputs, judged by the contract ----
ImplResult ==
    LET op == call.op
    IN CASE op \in ConstructorOps ->
              [e |-> "Ret", op |-> op, residue |-> <<>>, intact |-> TRUE, outw |-> FALSE, st |-> res,
               h |-> (IF res = StOK THEN FreshHandle ELSE 0),
               blk |-> (IF res = StOK THEN MyBlock ELSE 0),
               langout |-> (IF op = "Decode" /\ res = StOK THEN G(call.a.str.lang).id ELSE "none")]
         [] op = "Enable" -> [e |-> "Ret", op |-> op, residue |-> <<>>, ret |-> EnableResult(call.a.lo)]
         [] op = "Keygen" -> [e |-> "Ret", op |-> op, residue |-> <<>>, keyintact |-> TRUE]
         [] op = "Crypt" -> [e |-> "Ret", op |-> op, residue |-> <<>>, intact |-> TRUE]
         [] op = "Store" -> [e |-> "Ret", op |-> op, residue |-> <<>>, img |-> StoreImage(SeedOf(call.a.h)), spill |-> FALSE]
         [] op = "Encode" -> [e |-> "Ret", op |-> op, residue |-> <<>>, str |-> EncodeOut(SeedOf(call.a.h), call.a.lang, call.a.coin),
                              ret |-> Len(EncodeOut(SeedOf(call.a.h), call.a.lang, call.a.coin)), terminated |-> TRUE, spill |-> FALSE]
         [] op = "Feature" -> [e |-> "Ret", op |-> op, residue |-> <<>>, hi |-> 0, lo |-> GetFeature(SeedOf(call.a.h).features, call.a.lo)]
         [] OTHER -> [e |-> "Ret", op |-> op, residue |-> <<>>]

IReturnWith(r, ev) ==
    IF AllOk(ev.conds)
    THEN ReturnUpdate(r, ev.heap) /\ pc' = "idle" /\ stuck' = stuck /\ hist' = Append(hist, r)
    ELSE stuck' = TRUE /\ pc' = pc /\ UNCHANGED <<mask, deps, heap, blocks, call, hist>>

IReturn ==
    /\ pc = "ret" /\ ~stuck
    /\ IReturnWith(ImplResult, RetEval(ImplResult))
    /\ Same(<<ncalls, taint, res>>)

INext == IBegin \/ (~stuck /\ (CreateStep \/ DecodeStep \/ LoadStep \/ FreeStep \/ KdfStep \/ EncodeStep \/ SimpleStep)) \/ IReturn

IInit == Init /\ ncalls = 0 /\ hist = <<>> /\ pc = "idle" /\ taint = {} /\ res = StOK /\ stuck = FALSE
ISpec == IInit /\ [][INext]_ivars

IView == <<mask, deps, heap, blocks, call, ncalls, pc, taint, res, stuck>>

-----------------------------------------------------------------------------
\* the dependency-call shape of every (operation, status) the model can produce, for comparison with the
\* shapes recorded from the code (informational: a refactoring may legitimately change them)
ShapeOf(log) == [i \in 1..Len(log) |-> <<log[i].e, IF log[i].e \in {"Memzero", "Free", "Alloc"} THEN (IF log[i].blk >= 1 THEN "block" ELSE IF log[i].blk = 0 THEN "null" ELSE "stack") ELSE "-">>]
EmitShapes == (pc = "ret" /\ ~stuck) => PrintT(<<"SHAPE", call.op, res, ShapeOf(call.log)>>)

\* Termination (C14: "each API call terminates"), design level: under weak fairness of the implementation's
\* steps every call that has begun reaches its return (or is refused by the contract, which Conforms excludes).
\* Checked WITHOUT the view (PolyseedImpl_live.cfg): with the history in the state the graph of a call is what
\* the steps make it, so a step that loops back (a retry, a re-scan) would be a non-progress cycle here.
ILive == ISpec /\ WF_ivars(INext)
EveryCallReturns == (pc # "idle") ~> (pc = "idle" \/ stuck)
\* ... and no step inside a call can be left without a successor (safety half, checked with the invariants)
NoDeadEnd == (pc # "idle" /\ ~stuck) => ENABLED INext

Conforms == ~stuck
ReturnsClean == pc = "ret" => taint = {}
PcConsistent == (pc = "idle") <=> (call = None)
=============================================================================
