SPECIFICATION MCSpec
CONSTANTS
    MaxCalls = 3
    MaxLive = 2
    Pool = "poor"
    DecodeExpected <- [Polyseed] MCDecodeExpected
    NeedsNfkd <- [Phrase] MCNeedsNfkd
VIEW View
INVARIANTS CanonicalSeeds StorageRoundTrip PhraseRoundTrip NoReservedBit Ledger NoOrphanBlocks DepsWellFormed
PROPERTIES Isolation Stable OnlyEnableChangesMask OnlyInjectChangesDeps FailuresChangeNothing NewSeedsAreSupported
CHECK_DEADLOCK FALSE
