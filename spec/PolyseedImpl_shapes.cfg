SPECIFICATION ISpec
CONSTANTS
    MaxCalls = 2
    MaxLive = 2
    Pool = "rich"
    IdxWiped = TRUE
    DecodeExpected <- [Polyseed] MCDecodeExpected
    NeedsNfkd <- [Phrase] MCNeedsNfkd
VIEW IView
INVARIANTS EmitShapes Conforms ReturnsClean PcConsistent CanonicalSeeds StorageRoundTrip PhraseRoundTrip NoReservedBit Ledger NoOrphanBlocks DepsWellFormed
CHECK_DEADLOCK FALSE
