SPECIFICATION Spec
CONSTANT Family = "layout"
INVARIANT Holds
CHECK_DEADLOCK FALSE
