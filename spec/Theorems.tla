------------------------------- MODULE Theorems -------------------------------
(***************************************************************************)
(* Full-size finite lemmas about the formats, each family enumerated as a   *)
(* TLC state space with one state per case (so that the number of cases     *)
(* checked is TLC's own measured state count).  The lemma of a family is    *)
(* the invariant Holds.  Families are selected by the constant Family.      *)
(*                                                                          *)
(* The packing is GF(2)-linear and bit-disjoint: the 165 unit seeds and     *)
(* their 13 530 pairs determine it on all 2^165 seeds; linearity itself is  *)
(* among the lemmas.                                                        *)
(***************************************************************************)
EXTENDS Integers, Sequences, FiniteSets, TLC, Json, Bytes, GF2048, SeedCodec

CONSTANT Family

VARIABLE c
vars == <<c>>

-----------------------------------------------------------------------------
(* seeds as 165-bit vectors: bits 0..149 secret (in phrase order), 150..159 *)
(* birthday (bit 9 first), 160..164 features (bit 4 first)                  *)

ZeroSeed == [secret |-> Zeros(19), birthday |-> 0, features |-> 0]
OnesSeed == [secret |-> Mat([i \in 1..19 |-> IF i < 19 THEN 255 ELSE 63], 19), birthday |-> 1023, features |-> 31]

OnesW == Words(OnesSeed)

UnitSeed(k) ==
    IF k < 150
    THEN [ZeroSeed EXCEPT !.secret = Mat([i \in 1..19 |->
                IF k < 144 THEN (IF i = (k \div 8) + 1 THEN 2 ^ (7 - (k % 8)) ELSE 0)
                           ELSE (IF i = 19 THEN 2 ^ (149 - k) ELSE 0)], 19)]
    ELSE IF k < 160 THEN [ZeroSeed EXCEPT !.birthday = 2 ^ (9 - (k - 150))]
    ELSE [ZeroSeed EXCEPT !.features = 2 ^ (4 - (k - 160))]

XorSeed(s, t) == [secret |-> XorBytes(s.secret, t.secret), birthday |-> s.birthday ^^ t.birthday,
                  features |-> s.features ^^ t.features]

XorWords(a, b) == Mat([i \in 1..NW |-> a[i] ^^ b[i]], NW)

UnitWords(k) ==      \* what the README table says unit bit k looks like as data words (check word aside)
    Mat([i \in 1..NW |->
        IF i = 1 THEN 0
        ELSE IF k < 150 THEN (IF i = (k \div 10) + 2 THEN 2 ^ (10 - (k % 10)) ELSE 0)
        ELSE IF k < 160 THEN (IF i = 7 + (k - 150) THEN 1 ELSE 0)       \* birthday bits: words 7..16, msb first
        ELSE (IF i = 2 + (k - 160) THEN 1 ELSE 0)], NW)                  \* feature bits: words 2..6, msb first

-----------------------------------------------------------------------------
BaseIds == {1, 2}

Cases ==
    CASE Family = "roundtrip" ->
            [k : {"unit"}, i : 0..164, j : {0}] \cup { [k |-> "pair", i |-> p[1], j |-> p[2]] : p \in {q \in (0..164) \X (0..164) : q[1] < q[2]} }
            \cup [k : {"zero", "ones"}, i : {0}, j : {0}] \cup [k : {"birthday"}, i : 0..1023, j : {0}]
            \cup [k : {"features"}, i : 0..31, j : {0}]
      [] Family = "layout" -> [k : {"unit"}, i : 0..164, j : {0}] \cup [k : {"coin"}, i : 0..2047, j : {0}]
      [] Family = "coinpairs" -> [k : {"diff"}, i : 1..2047, j : {0}]
      [] Family = "coinpairsfull" -> [k : {"row"}, i : 0..2047, j : {0}]
      [] Family = "crypt" -> [k : {"byte"}, i : 0..255, j : 0..255] \cup [k : {"flag"}, i : 0..31, j : 0..1023]
      [] Family = "kdf" -> [k : {"coin"}, i : 0..2047, j : {0}] \cup [k : {"birthday"}, i : 0..1023, j : {0}]
                           \cup [k : {"features"}, i : 0..31, j : {0}] \cup [k : {"secret"}, i : 0..149, j : {0}]
      [] Family = "features" -> [k : {"gate"}, i : 0..31, j : 0..7] \cup [k : {"enable"}, i : 0..63, j : {0}]
                                \cup [k : {"create"}, i : 0..63, j : 0..7]
      [] Family = "gfmulx" -> [k : {"elem"}, i : 0..2047, j : {0}] \cup [k : {"power"}, i : 0..15, j : 0..15]
      [] Family = "gfsingle" -> [k : {"single"}, i : 1..2047, j : 0..15]
      [] Family = "gfswap" -> [k : {"swap"}, i : 1..2047, j : 0..119]
      [] Family = "gfunique" -> [k : {"check"}, i : 0..2047, j : 0..3]
      [] Family = "storage" -> [k : {"b9"}, i : 0..65535, j : BaseIds] \cup [k : {"b31"}, i : 0..65535, j : BaseIds]
                               \cup [k : {"hdr"}, i : 0..255, j : 1..8] \cup [k : {"b29", "b30"}, i : 0..255, j : BaseIds]
                               \cup [k : {"roundtrip"}, i : 0..164, j : {0}] \cup [k : {"mask"}, i : 0..31, j : 0..7]
      [] Family = "vectors" -> [k : {"vec"}, i : 0..31, j : {0, 1, 2}]
      [] Family = "birthday" -> [k : {"boundary"}, i : 0..1024, j : {0, 1, 2}] \cup [k : {"special"}, i : 1..12, j : {0}]
                                \cup [k : {"stride"}, i : 0..2047, j : {0}]

SeedOfCase(x) ==
    CASE x.k = "unit" -> UnitSeed(x.i)
      [] x.k = "pair" -> XorSeed(UnitSeed(x.i), UnitSeed(x.j))
      [] x.k = "zero" -> ZeroSeed
      [] x.k = "ones" -> OnesSeed
      [] x.k = "birthday" -> [OnesSeed EXCEPT !.birthday = x.i]
      [] x.k = "features" -> [OnesSeed EXCEPT !.features = x.i]

-----------------------------------------------------------------------------
(* C01 / C03: packing and unpacking                                         *)

RoundTripOf(s, w) ==
    /\ IsSeed(s)
    /\ Valid(w)
    /\ \A i \in 1..NW : w[i] \in GF
    /\ Unwords(w) = s
    /\ Words(Unwords(w)) = w
    /\ CheckOf(s) = w[1]
RoundTripLemma(x) ==
    /\ RoundTripOf(SeedOfCase(x), Words(SeedOfCase(x)))
    /\ x.k = "pair" =>        \* linearity on the basis
          Words(SeedOfCase(x)) = XorWords(Words(UnitSeed(x.i)), Words(UnitSeed(x.j)))

LayoutLemma(x) ==
    IF x.k = "unit"
    THEN \* the data words are exactly those of the published table; the check word is the unique validating one
         /\ Words(UnitSeed(x.i)) = WithCheck(UnitWords(x.i))
         /\ \A i \in 2..NW : Words(UnitSeed(x.i))[i] = UnitWords(x.i)[i]
    ELSE \* the coin touches the second word only, is its own inverse, and a coin-0 phrase is the plain phrase
         /\ ApplyCoin(ApplyCoin(OnesW, x.i), x.i) = OnesW
         /\ \A i \in 1..NW : i # 2 => ApplyCoin(OnesW, x.i)[i] = OnesW[i]
         /\ ApplyCoin(OnesW, x.i)[2] = OnesW[2] ^^ x.i
         /\ PhraseWords(OnesSeed, 0) = OnesW

-----------------------------------------------------------------------------
(* C05: a phrase valid for coin A is invalid for every other coin B.        *)
(* By linearity Valid(w xor d*e_2) <=> MulX(d) = 0 for valid w.             *)

CoinDiffLemma(d) ==
    /\ MulX(d) # 0
    /\ ~Valid(ApplyCoin(OnesW, d))
    /\ ~Valid(ApplyCoin(Words(ZeroSeed), d))
CoinRowLemma(a) ==      \* direct: every ordered pair (a, b)
    \A b \in 0..2047 : Valid(ApplyCoin(ApplyCoin(OnesW, a), b)) <=> (a = b)

-----------------------------------------------------------------------------
(* C12: the password operation, per byte and for the flag                   *)

CryptLemma(x) ==
    IF x.k = "byte"
    THEN LET s == [ZeroSeed EXCEPT !.secret = Mat([i \in 1..19 |-> IF i = 19 THEN x.i % 64 ELSE x.i], 19)]
             m == Mat([i \in 1..32 |-> x.j], 32)
             t == CryptApply(s, m)
         IN /\ IsSeed(t)
            /\ CryptApply(t, m) = s                       \* involution
            /\ t.birthday = s.birthday
            /\ t.features = s.features ^^ EncryptedBit
            /\ \A i \in 1..18 : t.secret[i] = x.i ^^ x.j
            /\ t.secret[19] = ((x.i % 64) ^^ x.j) % 64    \* the two top mask bits are dropped
            /\ (x.j % 64 # 0) => t.secret # s.secret      \* a different mask gives a different seed
    ELSE LET s == [ZeroSeed EXCEPT !.features = x.i, !.birthday = x.j]
             t == CryptApply(s, Zeros(32))
         IN /\ t.birthday = x.j
            /\ t.features % 16 = x.i % 16                 \* user and reserved bits untouched
            /\ IsEncrypted(t.features) # IsEncrypted(s.features)
            /\ CryptApply(t, Zeros(32)) = s

-----------------------------------------------------------------------------
(* C04: KDF inputs are injective in each field                              *)

KdfLemma(x) ==
    LET base == KeygenSalt(OnesSeed, 0)
    IN /\ Len(base) = 32 /\ Len(KeygenPw(OnesSeed)) = 32
       /\ SubSeq(KeygenPw(OnesSeed), 20, 32) = Zeros(13)
       /\ CASE x.k = "coin" -> /\ (x.i # 0 => KeygenSalt(OnesSeed, x.i) # base)
                               /\ SubSeq(KeygenSalt(OnesSeed, x.i), 17, 20) = LE32(x.i)
                               /\ SubSeq(KeygenSalt(OnesSeed, x.i), 1, 16) = KeySaltTag \o <<0, 255, 255, 255>>
            [] x.k = "birthday" -> /\ (x.i # 1023 => KeygenSalt([OnesSeed EXCEPT !.birthday = x.i], 0) # base)
                                   /\ SubSeq(KeygenSalt([OnesSeed EXCEPT !.birthday = x.i], 0), 21, 24) = LE32(x.i)
            [] x.k = "features" -> /\ (x.i # 31 => KeygenSalt([OnesSeed EXCEPT !.features = x.i], 0) # base)
                                   /\ SubSeq(KeygenSalt([OnesSeed EXCEPT !.features = x.i], 0), 25, 32) = LE32(x.i) \o Zeros(4)
            [] x.k = "secret" -> KeygenPw(UnitSeed(x.i)) # KeygenPw(ZeroSeed)
                                 /\ SubSeq(KeygenPw(UnitSeed(x.i)), 1, 19) = UnitSeed(x.i).secret

-----------------------------------------------------------------------------
(* C10: feature gating, stated from the property text                       *)

BitsOf(v) == { b \in 0..4 : Bit(v, b) = 1 }
FeaturesLemma(x) ==
    CASE x.k = "gate" ->    \* refused iff some bit is neither enabled (0..2, in mask j) nor the encryption bit (4)
            Supported(x.i, x.j) <=> (BitsOf(x.i) \subseteq (BitsOf(x.j) \cup {4}))
      [] x.k = "enable" -> EnableResult(x.i) = Cardinality(BitsOf(x.i % 8))
      [] x.k = "create" -> /\ MakeFeatures(x.i) = x.i % 8
                           /\ GetFeature(MakeFeatures(x.i), x.j) = (x.i % 8) & x.j
                           /\ GetFeature(16 + MakeFeatures(x.i), 31) = x.i % 8      \* internal bits never leak
                           /\ ~IsEncrypted(MakeFeatures(x.i))

-----------------------------------------------------------------------------
(* C11: the birthday quantiser on all month boundaries and special clocks   *)

RangeEnd == TimeOfBirthday(1024)          \* first instant after the 1024-month range
BigStep  == FromNat(TimeStep)
Pow2(n)  == Mat([i \in 1..W |-> IF i = W - (n \div 8) THEN 2 ^ (n % 8) ELSE 0], W)
One      == FromNat(1)

SpecialClock(i) ==
    CASE i = 1 -> FromNat(0)
      [] i = 2 -> FromNat(1)
      [] i = 3 -> FromNat(Epoch - 1)
      [] i = 4 -> FromNat(Epoch)
      [] i = 5 -> FromNat(Epoch + 1)
      [] i = 6 -> BigSub(Pow2(32), One)
      [] i = 7 -> Pow2(32)
      [] i = 8 -> BigAdd(Pow2(32), One)
      [] i = 9 -> Pow2(63)
      [] i = 10 -> BigSub(AllOnes64, One)
      [] i = 11 -> AllOnes64
      [] i = 12 -> BigSub(RangeEnd, One)

ClockLemma(t) ==
    LET b == BirthdayOfTime(t)
        B == TimeOfBirthday(b)
    IN /\ b \in 0..1023
       /\ BigLt(t, FromNat(Epoch)) => b = 0                               \* before the epoch: the epoch
       /\ t = AllOnes64 => b = 0                                          \* (time_t)-1: the epoch
       /\ (BigLe(FromNat(Epoch), t) /\ t # AllOnes64) => BigLe(B, t)       \* never later than creation
       /\ (BigLe(FromNat(Epoch), t) /\ BigLt(t, RangeEnd)) =>
             (BigLe(B, t) /\ BigLt(t, BigAdd(B, BigStep)))                \* accurate to one month

BirthdayLemma(x) ==
    CASE x.k = "boundary" ->
            LET edge == TimeOfBirthday(x.i)         \* x.i = 1024: end of range
                t == IF x.j = 0 THEN BigSub(edge, One) ELSE IF x.j = 1 THEN edge ELSE BigAdd(edge, One)
            IN /\ ClockLemma(t)
               /\ (x.i < 1024 /\ x.j >= 1) => BirthdayOfTime(t) = x.i
               /\ (x.i >= 1 /\ x.i <= 1024 /\ x.j = 0) => BirthdayOfTime(t) = x.i - 1
               /\ x.i < 1024 => BigModSmall(BigSub(edge, FromNat(Epoch)), TimeStep) = 0
      [] x.k = "special" -> ClockLemma(SpecialClock(x.i))
      [] x.k = "stride" ->  \* monotone between boundaries: two instants inside the same month agree
            LET t0 == BigAdd(TimeOfBirthday(x.i % 1024), FromNat((x.i * 1283) % TimeStep))
            IN ClockLemma(t0) /\ BirthdayOfTime(t0) = x.i % 1024

-----------------------------------------------------------------------------
-----------------------------------------------------------------------------
(* C02: the field and the distance of the code                              *)

PairNo(n) ==      \* the n-th pair i < j of positions 0..15, n in 0..119
    CHOOSE p \in (0..15) \X (0..15) : p[1] < p[2] /\ n = (p[1] * (31 - p[1])) \div 2 + (p[2] - p[1] - 1)

GfMulxLemma(x) ==
    IF x.k = "elem"
    THEN /\ MulX(x.i) \in GF
         /\ \A b \in 0..10 : MulX(x.i ^^ (2 ^ b)) = MulX(x.i) ^^ MulX(2 ^ b)       \* GF(2)-linear
         /\ (x.i # 0 => MulX(x.i) # 0)                                          \* injective (with linearity)
         /\ MulX(x.i) = (IF x.i < 1024 THEN 2 * x.i ELSE (2 * x.i - 2048) ^^ 5)
    ELSE \* the powers x^0..x^15 are non-zero and pairwise distinct
         /\ MulXn(1, x.i) # 0
         /\ (x.i # x.j => MulXn(1, x.i) # MulXn(1, x.j))

\* replacing the word at position j by one that differs by d changes the evaluation by d*x^j # 0
GfSingleLemma(x) == MulXn(x.i, x.j) # 0

\* exchanging unequal words at positions p < q (difference d) changes it by d*(x^p + x^q) # 0
GfSwapAt(d, p) == (MulXn(d, p[1]) ^^ MulXn(d, p[2])) # 0
GfSwapLemma(x) == GfSwapAt(x.i, PairNo(x.j))

\* for given data words exactly one check word validates
SampleData(j) ==
    CASE j = 0 -> Words(ZeroSeed) [] j = 1 -> OnesW
      [] j = 2 -> Words(UnitSeed(77)) [] j = 3 -> ApplyCoin(OnesW, 1365)
GfUniqueLemma(x) ==
    Valid(WithCheckOf(SampleData(x.j), x.i)) <=> (x.i = CheckWord(SampleData(x.j)))

-----------------------------------------------------------------------------
(* C06: storage.  Field-wise exhaustive neighbourhood of valid images.      *)

BaseSeed(j) == IF j = 1 THEN [OnesSeed EXCEPT !.features = 21, !.birthday = 682]
               ELSE [UnitSeed(3) EXCEPT !.features = 0, !.birthday = 1]
BaseImage(j) == StoreImage(BaseSeed(j))
SetBytes(b, p, v) == Mat([i \in 1..32 |-> IF i = p THEN v % 256 ELSE IF i = p + 1 THEN v \div 256 ELSE b[i]], 32)
SetByte(b, p, v) == Mat([i \in 1..32 |-> IF i = p THEN v ELSE b[i]], 32)

\* acceptance implies that storing the loaded seed reproduces the buffer; statuses follow the precedence
BufferLemma(b) ==
    /\ \A m \in {0, 5, 7} :
          /\ LoadStatus(b, m) \in {StOK, StFormat, StChecksum, StUnsupported}
          /\ LoadStatus(b, m) = StOK => (StoreImage(BufSeed(b)) = b /\ IsSeed(BufSeed(b))
                                           /\ Supported(BufSeed(b).features, m))
    /\ ~WellFormed(b) => LoadStatus(b, 7) = StFormat
    /\ (WellFormed(b) /\ StoreImage(BufSeed(b)) # b) => LoadStatus(b, 7) = StChecksum

StorageLemma(x) ==
    CASE x.k = "b9" -> BufferLemma(SetBytes(BaseImage(x.j), 9, x.i))
      [] x.k = "b31" -> BufferLemma(SetBytes(BaseImage(x.j), 31, x.i))
      [] x.k = "hdr" -> BufferLemma(SetByte(BaseImage(1), x.j, x.i))
      [] x.k = "b29" -> BufferLemma(SetByte(BaseImage(x.j), 29, x.i))
      [] x.k = "b30" -> BufferLemma(SetByte(BaseImage(x.j), 30, x.i))
      [] x.k = "roundtrip" ->
            /\ Len(StoreImage(UnitSeed(x.i))) = 32
            /\ LoadStatus(StoreImage(UnitSeed(x.i)), 0) = (IF Supported(UnitSeed(x.i).features, 0) THEN StOK ELSE StUnsupported)
            /\ BufSeed(StoreImage(UnitSeed(x.i))) = UnitSeed(x.i)
            /\ WellFormed(StoreImage(UnitSeed(x.i)))
      [] x.k = "mask" ->
            LoadStatus(StoreImage([OnesSeed EXCEPT !.features = x.i]), x.j)
              = (IF Supported(x.i, x.j) THEN StOK ELSE StUnsupported)

-----------------------------------------------------------------------------
(* Vectors for replay into the code (spec -> code): seeds the library refuses to create - every value of the   *)
(* five feature bits, the reserved one included - as the serialised image and the word indices the            *)
(* specification assigns them, with the right check value (j = 0), a check value off by one (j = 1), and a    *)
(* second secret (j = 2).  The library's verdict on them is judged by trace validation.                       *)
VecSeed(x) == [ (IF x.j = 2 THEN UnitSeed(77) ELSE OnesSeed) EXCEPT !.features = x.i, !.birthday = 300 + x.i ]
VecWords(x) == IF x.j = 1 THEN WithCheckOf(Words(VecSeed(x)), (Words(VecSeed(x))[1] + 1) % 2048) ELSE Words(VecSeed(x))
VecImage(x) == IF x.j = 1
               THEN Header \o LE16(VecSeed(x).features * 1024 + VecSeed(x).birthday) \o VecSeed(x).secret \o << 255 >> \o LE16(28672 + VecWords(x)[1])
               ELSE StoreImage(VecSeed(x))
VectorLemma(x) ==
    /\ PrintT(<<"VEC", ToJson([f |-> x.i, kind |-> x.j, img |-> VecImage(x), words |-> VecWords(x)])>>)
    /\ (x.j # 1 => (Valid(VecWords(x)) /\ LoadStatus(VecImage(x), 7) = (IF Supported(x.i, 7) THEN StOK ELSE StUnsupported)))
    /\ (x.j = 1 => (~Valid(VecWords(x)) /\ LoadStatus(VecImage(x), 7) = StChecksum))

Holds ==
    c.k = "group" \/
    CASE Family = "roundtrip" -> RoundTripLemma(c)
      [] Family = "layout" -> LayoutLemma(c)
      [] Family = "coinpairs" -> CoinDiffLemma(c.i)
      [] Family = "coinpairsfull" -> CoinRowLemma(c.i)
      [] Family = "crypt" -> CryptLemma(c)
      [] Family = "kdf" -> KdfLemma(c)
      [] Family = "features" -> FeaturesLemma(c)
      [] Family = "birthday" -> BirthdayLemma(c)
      [] Family = "gfmulx" -> GfMulxLemma(c)
      [] Family = "gfsingle" -> GfSingleLemma(c)
      [] Family = "gfswap" -> GfSwapLemma(c)
      [] Family = "gfunique" -> GfUniqueLemma(c)
      [] Family = "storage" -> StorageLemma(c)
      [] Family = "vectors" -> VectorLemma(c)

\* 64 initial "group" states fan out to the cases, so that all TLC workers share the enumeration
AllCases == Cases
Init == c \in [k : {"group"}, i : 0..63, j : {0}]
Next == /\ c.k = "group"
        /\ c' \in { x \in AllCases : x.i % 64 = c.i }
Spec == Init /\ [][Next]_vars
=============================================================================
