SPECIFICATION Spec
CONSTANT Family = "gfmulx"
INVARIANT Holds
CHECK_DEADLOCK FALSE
