SPECIFICATION Spec
CONSTANT Family = "coinpairsfull"
INVARIANT Holds
CHECK_DEADLOCK FALSE
