------------------------------ MODULE SeedCodec ------------------------------
(***************************************************************************)
(* The published data formats of polyseed 2.x, stated declaratively.        *)
(*                                                                          *)
(* An abstract seed is [secret, birthday, features]:                        *)
(*   secret   : 19 bytes holding 150 bits (two top bits of byte 19 are 0)   *)
(*   birthday : 0..1023   months since 1 Nov 2021 12:00 UTC                 *)
(*   features : 0..31     bit 4 = encrypted, bit 3 = reserved, bits 0-2 user*)
(* Nothing else: no check value, no padding - those are derived.            *)
(***************************************************************************)
EXTENDS Integers, Sequences, Bytes, GF2048

SecretBytes == 19
SecretBits  == 150
EncryptedBit == 16
ReservedBit  == 8
UserMask     == 7

IsSeed(s) == /\ Len(s.secret) = SecretBytes
             /\ IsBytes(s.secret)
             /\ s.secret[SecretBytes] < 64
             /\ s.birthday \in 0..1023
             /\ s.features \in 0..31

-----------------------------------------------------------------------------
(* Phrase layout (README "Encoding"):                                       *)
(*   word 1      check value                                                *)
(*   words 2-6   10 secret bits, then one feature bit                       *)
(*   words 7-16  10 secret bits, then one birthday bit                      *)
(* all most significant first.  The 150 secret bits are bytes 1..18 from    *)
(* their top bit down, followed by the low six bits of byte 19.             *)

\* k-th bit (0-based) of the 150-bit secret string
SecretBit(sec, k) ==
    IF k < 144 THEN Bit(sec[(k \div 8) + 1], 7 - (k % 8))
               ELSE Bit(sec[19], 149 - k)

\* the 15-bit string features(5) birthday(10), most significant first
ExtraBit(seed, j) == Bit(seed.features * 1024 + seed.birthday, 14 - j)   \* j = 0..14

RECURSIVE TenBits(_, _, _)
TenBits(sec, from, n) ==   \* value of bits from..from+n-1
    IF n = 0 THEN 0 ELSE 2 * TenBits(sec, from, n - 1) + SecretBit(sec, from + n - 1)

\* data word j (j = 1..15 is phrase word j+1)
DataWord(seed, j) == 2 * TenBits(seed.secret, 10 * (j - 1), 10) + ExtraBit(seed, j - 1)

\* the 16 word indices of a seed for coin 0, check word included
Words(seed) == WithCheck(Mat([i \in 1..NW |-> IF i = 1 THEN 0 ELSE DataWord(seed, i - 1)], NW))

CheckOf(seed) == Words(seed)[1]

PhraseWords(seed, coin) == ApplyCoin(Words(seed), coin)

\* inverse direction: from 16 indices (coin already removed) to the seed
WordBit(w, k) == Bit(w[(k \div 10) + 2], 10 - (k % 10))     \* k-th secret bit
RECURSIVE BitsVal(_, _, _)
BitsVal(w, from, n) == IF n = 0 THEN 0 ELSE 2 * BitsVal(w, from, n - 1) + WordBit(w, from + n - 1)
RECURSIVE ExtraVal(_, _)
ExtraVal(w, n) == IF n = 0 THEN 0 ELSE 2 * ExtraVal(w, n - 1) + (w[n + 1] % 2)

UnwordsOf(w, extra) ==
    [ secret   |-> Mat([i \in 1..SecretBytes |->
                           IF i < 19 THEN BitsVal(w, 8 * (i - 1), 8) ELSE BitsVal(w, 144, 6)], SecretBytes),
      birthday |-> extra % 1024,
      features |-> extra \div 1024 ]
Unwords(w) == UnwordsOf(w, ExtraVal(w, 15))

-----------------------------------------------------------------------------
(* Features                                                                 *)

MakeFeatures(u)      == u % 8                     \* only the three low bits of the request
GetFeature(f, m)     == f & (m % 8)
IsEncrypted(f)       == (f \div 16) % 2 = 1
\* supported under the enabled user mask m (0..7): no bit outside m and the encrypted bit
Supported(f, m)      == (f & (31 - 16 - m)) = 0
EnableResult(arg)    == PopCount(arg % 8, 3)

-----------------------------------------------------------------------------
(* Serialised form (32 bytes)                                               *)

Header == << 80, 79, 76, 89, 83, 69, 69, 68 >>       \* "POLYSEED"

StoreImage(seed) ==
    Header \o LE16(seed.features * 1024 + seed.birthday) \o seed.secret
           \o << 255 >> \o LE16(28672 + CheckOf(seed))

StOK == 0  StNumWords == 1  StLang == 2  StChecksum == 3
StUnsupported == 4  StFormat == 5  StMemory == 6  StMultLang == 7

\* fields of an arbitrary 32-byte buffer
BufExtra(b)  == UnLE16(b, 9)
BufSecret(b) == SubSeq(b, 11, 29)
BufFooter(b) == UnLE16(b, 31)
BufSeed(b)   == [secret |-> BufSecret(b), birthday |-> BufExtra(b) % 1024,
                 features |-> (BufExtra(b) \div 1024) % 32]

WellFormed(b) == /\ SubSeq(b, 1, 8) = Header
                 /\ BufExtra(b) < 32768
                 /\ b[29] < 64
                 /\ b[30] = 255
                 /\ BufFooter(b) \div 2048 = 14            \* 0x7000 >> 11

\* status of loading b under user mask m, ignoring allocation (FORMAT > CHECKSUM > UNSUPPORTED)
LoadStatus(b, m) ==
    IF ~WellFormed(b) THEN StFormat
    ELSE IF CheckOf(BufSeed(b)) # BufFooter(b) % 2048 THEN StChecksum
    ELSE IF ~Supported(BufSeed(b).features, m) THEN StUnsupported
    ELSE StOK

-----------------------------------------------------------------------------
(* Birthday quantiser                                                       *)

Epoch    == 1635768000
TimeStep == 2629746

\* t : BigNat (64-bit clock value)
BirthdayOfTime(t) ==
    IF t = AllOnes64 \/ BigLt(t, FromNat(Epoch)) THEN 0
    ELSE BigLow10(BigDivSmall(BigSub(t, FromNat(Epoch)), TimeStep))

TimeOfBirthday(k) == BigAdd(FromNat(Epoch), BigMulSmall(FromNat(TimeStep), k))

-----------------------------------------------------------------------------
(* Key derivation inputs                                                    *)

KeySaltTag  == << 80, 79, 76, 89, 83, 69, 69, 68, 32, 107, 101, 121 >>          \* "POLYSEED key"
MaskSalt    == << 80, 79, 76, 89, 83, 69, 69, 68, 32, 109, 97, 115, 107,       \* "POLYSEED mask"
                  0, 255, 255 >>
KdfIterations == 10000

KeygenPw(seed)         == seed.secret \o Zeros(13)
KeygenSalt(seed, coin) == KeySaltTag \o << 0, 255, 255, 255 >> \o LE32(coin)
                             \o LE32(seed.birthday) \o LE32(seed.features) \o Zeros(4)

\* password operation: XOR the first 19 mask bytes, keep 150 bits, toggle the encrypted bit
CryptApply(seed, mask32) ==
    [ secret   |-> Mat([i \in 1..SecretBytes |->
                       IF i < 19 THEN seed.secret[i] ^^ mask32[i]
                                 ELSE (seed.secret[i] ^^ mask32[i]) % 64], SecretBytes),
      birthday |-> seed.birthday,
      features |-> seed.features ^^ EncryptedBit ]

\* a fresh seed from 19 random bytes, a clock value and requested user features
FreshSeed(rnd, t, u) ==
    [ secret   |-> Mat([i \in 1..SecretBytes |-> IF i < 19 THEN rnd[i] ELSE rnd[i] % 64], SecretBytes),
      birthday |-> BirthdayOfTime(t),
      features |-> MakeFeatures(u) ]
=============================================================================
