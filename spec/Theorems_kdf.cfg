SPECIFICATION Spec
CONSTANT Family = "kdf"
INVARIANT Holds
CHECK_DEADLOCK FALSE
