SPECIFICATION MCSpec
CONSTANTS
    MaxCalls = 2
    MaxLive = 2
    Pool = "poor"
    DecodeExpected <- [Polyseed] MCDecodeExpected
    NeedsNfkd <- [Phrase] MCNeedsNfkd
INVARIANTS EmitBehaviours
CHECK_DEADLOCK FALSE
