SPECIFICATION ILive
CONSTANTS
    MaxCalls = 2
    MaxLive = 2
    Pool = "poor"
    IdxWiped = TRUE
    DecodeExpected <- [Polyseed] MCDecodeExpected
    NeedsNfkd <- [Phrase] MCNeedsNfkd
INVARIANTS NoDeadEnd Conforms
PROPERTIES EveryCallReturns
CHECK_DEADLOCK FALSE
