SPECIFICATION Spec
CONSTANT Family = "coinpairs"
INVARIANT Holds
CHECK_DEADLOCK FALSE
