-------------------------------- MODULE Phrase --------------------------------
(***************************************************************************)
(* From a byte string to a decoding outcome: lazy normalisation, splitting  *)
(* into tokens, per-language word search, status precedence.                *)
(***************************************************************************)
EXTENDS Integers, Sequences, FiniteSets, Bytes, GF2048, SeedCodec, Wordlists

\* The library normalises only strings with a non-ASCII byte among the first S-1 bytes
\* (S = the public phrase-buffer size); pure-ASCII input is cut at S-1 bytes (named deviation).
Min2(a, b) == IF a < b THEN a ELSE b
NeedsNfkd(str, S) == \E i \in 1..Min2(Len(str), S - 1) : str[i] >= 128
AsciiCut(str, S)  == SubSeq(str, 1, Min2(Len(str), S - 1))

-----------------------------------------------------------------------------
(* Tokens: the pieces between single spaces.  One trailing space is         *)
(* tolerated; any other extra space yields an empty token; the empty string *)
(* has no tokens.                                                           *)

RECURSIVE SpacesFrom(_, _)
SpacesFrom(s, i) == IF i > Len(s) THEN <<>>
                    ELSE IF s[i] = 32 THEN <<i>> \o SpacesFrom(s, i + 1) ELSE SpacesFrom(s, i + 1)

TokensAt(t, sp) == Mat([k \in 1..(Len(sp) - 1) |-> SubSeq(t, sp[k] + 1, sp[k + 1] - 1)], Len(sp) - 1)
TokensOfTrimmed(t) == TokensAt(t, <<0>> \o SpacesFrom(t, 1) \o <<Len(t) + 1>>)
Tokens(s) ==
    IF s = <<>> THEN <<>>
    ELSE TokensOfTrimmed(IF s[Len(s)] = 32 THEN SubSeq(s, 1, Len(s) - 1) ELSE s)

\* operational reading of the same thing (left-to-right scan), used as a cross-check lemma
RECURSIVE ScanTokens(_, _, _)
ScanTokens(s, pos, cur) ==
    IF pos > Len(s) THEN (IF cur = <<>> /\ pos > 1 /\ s[pos - 1] = 32 THEN <<>> ELSE <<cur>>)
    ELSE IF s[pos] = 32 THEN <<cur>> \o ScanTokens(s, pos + 1, <<>>)
    ELSE ScanTokens(s, pos + 1, Append(cur, s[pos]))
TokensOp(s) == IF s = <<>> THEN <<>> ELSE ScanTokens(s, 1, <<>>)

-----------------------------------------------------------------------------
(* Word search                                                              *)

Recognises(L, toks) == \A j \in 1..Len(toks) : Find(L, toks[j]) # {}

\* 0-based indices of the tokens in L (defined when Recognises(L, toks))
IndicesIn(L, toks) == Mat([j \in 1..Len(toks) |-> (CHOOSE i \in Find(L, toks[j]) : TRUE) - 1], Len(toks))

FullLangs(toks) == { k \in LangNos : Recognises(G(k), toks) }

-----------------------------------------------------------------------------
(* Outcomes.  sel = 0 : automatic detection; sel = k : explicit language k. *)
(* Result: [st, lang, seed]; lang = 0 and seed = NoSeed when not OK.        *)
(* Precedence: word count > language > checksum > memory > unsupported.     *)

NoSeed == [secret |-> <<>>, birthday |-> 0, features |-> 0]

Failure(st) == [st |-> st, lang |-> 0, seed |-> NoSeed]

\* once a single language k has recognised all tokens, failures remember it (lang = k)
FailureIn(st, k) == [st |-> st, lang |-> k, seed |-> NoSeed]
TailSeed(k, seed, m) ==
    IF ~Supported(seed.features, m) THEN FailureIn(StUnsupported, k)
    ELSE [st |-> StOK, lang |-> k, seed |-> seed]
TailOf(k, w, m, allocFailed) ==
    IF ~Valid(w) THEN FailureIn(StChecksum, k)
    ELSE IF allocFailed THEN FailureIn(StMemory, k)
    ELSE TailSeed(k, Unwords(w), m)

TailOutcome(k, toks, coin, m, allocFailed) ==
    TailOf(k, ApplyCoin(IndicesIn(G(k), toks), coin), m, allocFailed)

AutoOutcome(full, toks, coin, m, allocFailed) ==
    IF full = {} THEN Failure(StLang)
    ELSE IF Cardinality(full) > 1 THEN Failure(StMultLang)
    ELSE TailOutcome(CHOOSE k \in full : TRUE, toks, coin, m, allocFailed)

OutcomeOfTokens(toks, coin, sel, m, allocFailed) ==
    IF Len(toks) # NW THEN Failure(StNumWords)
    ELSE IF sel # 0
         THEN IF Recognises(G(sel), toks) THEN TailOutcome(sel, toks, coin, m, allocFailed)
              ELSE Failure(StLang)
         ELSE AutoOutcome(FullLangs(toks), toks, coin, m, allocFailed)

DecodeOutcome(norm, coin, sel, m, allocFailed) == OutcomeOfTokens(Tokens(norm), coin, sel, m, allocFailed)

\* what polyseed_encode must produce
EncodeDecomposed(seed, k, coin) == PhraseDecomposed(G(k), PhraseWords(seed, coin))
EncodeOut(seed, k, coin)        == PhraseOut(G(k), PhraseWords(seed, coin))
=============================================================================
