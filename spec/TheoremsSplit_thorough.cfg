SPECIFICATION Spec
CONSTANT MaxLen = 9
INVARIANT Holds
CHECK_DEADLOCK FALSE
