SPECIFICATION Spec
CONSTANTS
    Threads = {1, 2, 3}
    MaxCalls = 3
    AllowConfig = FALSE
INVARIANTS NoRace SerialResults ReadOnlyPhase
CHECK_DEADLOCK FALSE
