SPECIFICATION Spec
CONSTANTS
    Threads = {1, 2}
    MaxCalls = 2
    AllowConfig = TRUE
INVARIANTS NoRace
CHECK_DEADLOCK FALSE
