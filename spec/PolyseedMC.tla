------------------------------ MODULE PolyseedMC ------------------------------
(***************************************************************************)
(* Bounded instance of the contract Polyseed.tla for exhaustive model       *)
(* checking: the environment (allocator, random source, clock, KDF) and the *)
(* caller choose from small pools; allocation may fail at every request.    *)
(*                                                                          *)
(* What TLC establishes here is "contract |= property": the listed          *)
(* properties that speak about histories (C10, C13, C15, C16, C18 and the   *)
(* state-machine halves of C01, C06, C11, C12) are invariants and action    *)
(* properties of every behaviour the contract allows.  That the C code      *)
(* follows the contract is the job of trace validation; the behaviours of   *)
(* this model are also replayed into the C code (spec -> code).             *)
(*                                                                          *)
(* Phrases are abstract here: a phrase input denotes (seed, language, coin, *)
(* defect); splitting and word search on real strings are Phrase.tla's      *)
(* business (TheoremsSplit, trace validation).  DecodeExpected and          *)
(* NeedsNfkd are overridden accordingly in the configuration.               *)
(***************************************************************************)
EXTENDS Integers, Sequences, FiniteSets, TLC, Json, Bytes, GF2048, SeedCodec, Wordlists, Phrase

CONSTANTS MaxCalls,       \* bound on the number of API calls of a behaviour
          MaxLive,        \* bound on simultaneously live seeds
          Pool            \* "tiny" | "poor" | "rich": size of the caller's and the environment's pools

StrSize == 544

VARIABLES mask, deps, heap, blocks, call,
          ncalls,         \* API calls begun so far
          hist            \* the behaviour so far, for replay into the implementation (hidden by VIEW)

INSTANCE Polyseed

mcvars == <<mask, deps, heap, blocks, call, ncalls, hist>>

-----------------------------------------------------------------------------
(* pools                                                                    *)

S1 == <<1, 35, 69, 103, 137, 171, 205, 239, 16, 50, 84, 118, 152, 186, 220, 254, 15, 240, 42>>
S2 == <<255, 255, 255, 255, 255, 255, 255, 255, 255, 255, 255, 255, 255, 255, 255, 255, 255, 255, 255>>
Rich == Pool = "rich"
Tiny == Pool = "tiny"

RandPool  == IF Rich THEN {S1, S2} ELSE {S2}           \* S2's top bits must be dropped by create
ClockPool == IF Rich THEN { <<30855, 25158, 0, 0>>, <<0, 0, 0, 0>> } ELSE { <<30855, 25158, 0, 0>> }
M1 == <<84, 74, 136, 149, 255, 192, 69, 28, 155, 142, 40, 30, 24, 45, 13, 115, 99, 125, 219, 215, 203, 110,
        237, 143, 132, 53, 179, 19, 140, 12, 240, 78>>
MaskPool  == {M1}
CoinPool  == IF Tiny THEN {0} ELSE {0, 2047}
LangPool  == {1, 4}                                     \* English, Spanish (composing)
EnableArgs == IF Rich THEN {0, 5, 7, 13} ELSE {0, 5}
CreateArgs == IF Rich THEN {0, 5, 13, 2} ELSE {0, 5}
Pw == <<112, 119>>
SetPool == IF Rich THEN { <<"A","A","A","A","A","A","A","A">>, <<"B","B","B","B","B","N","N","N">> }
                   ELSE { <<"B","B","B","B","B","N","N","N">> }

\* seeds a caller may hold on paper or on disk, whatever the library would say about them
PaperSeeds == { [secret |-> Mat([i \in 1..19 |-> IF i = 19 THEN s[i] % 64 ELSE s[i]], 19), birthday |-> 77, features |-> f] :
                  s \in {S1}, f \in (IF Rich THEN {0, 5, 8, 16, 21} ELSE IF Tiny THEN {0, 8} ELSE {0, 8, 21}) }
Defects == IF Tiny THEN {"none", "check", "ambig"} ELSE {"none", "check", "count", "word", "ambig"}
PhrasePool == [k : {"ph"}, seed : PaperSeeds, lang : {1}, coin : {0}, defect : Defects]
ImagePool  == [k : {"img"}, seed : PaperSeeds, defect : {"none", "check", "format"}]

ImageBytes(p) ==
    CASE p.defect = "none"   -> StoreImage(p.seed)
      [] p.defect = "check"  -> Mat([i \in 1..32 |-> IF i = 31 THEN (StoreImage(p.seed)[31] + 1) % 256 ELSE StoreImage(p.seed)[i]], 32)
      [] p.defect = "format" -> Mat([i \in 1..32 |-> IF i = 30 THEN 254 ELSE StoreImage(p.seed)[i]], 32)

-----------------------------------------------------------------------------
(* overrides (see configuration): the denotation of an abstract phrase      *)

MCNeedsNfkd(str, S) == FALSE

MCWords(p) == IF p.defect = "check"
              THEN Mat([i \in 1..NW |-> IF i = 5 THEN PhraseWords(p.seed, p.coin)[i] ^^ 1 ELSE PhraseWords(p.seed, p.coin)[i]], NW)
              ELSE PhraseWords(p.seed, p.coin)

MCDecodeExpected ==
    LET p == call.a.str
        sel == IF call.op = "DecodeX" THEN call.a.lang ELSE 0
    IN IF p.defect = "count" THEN Failure(StNumWords)
       ELSE IF p.defect = "word" THEN Failure(StLang)
       ELSE IF sel # 0 /\ sel # p.lang /\ p.defect # "ambig" THEN Failure(StLang)
       ELSE IF sel = 0 /\ p.defect = "ambig" THEN Failure(StMultLang)
       ELSE TailOf(IF sel # 0 THEN sel ELSE p.lang, ApplyCoin(MCWords(p), call.a.coin), mask, AllocFailed)

-----------------------------------------------------------------------------
(* the caller                                                               *)

FreshHandle == IF Handles = {} THEN 1 ELSE 1 + CHOOSE h \in Handles : \A g \in Handles : g <= h
FreshBlock  == IF DOMAIN blocks = {} THEN 1 ELSE 1 + CHOOSE b \in DOMAIN blocks : \A d \in DOMAIN blocks : d <= b

CallChoices ==
       { <<"Inject", [set |-> s]>> : s \in SetPool }
  \cup { <<"Enable", [lo |-> m, hi |-> 0]>> : m \in EnableArgs }
  \cup (IF Cardinality(Handles) < MaxLive THEN
            { <<"Create", [lo |-> u, hi |-> 0]>> : u \in CreateArgs }
       \cup { <<"Decode", [str |-> p, len |-> 0, coin |-> c, lang |-> 0, wantlang |-> TRUE, idn |-> FALSE]>> : p \in PhrasePool, c \in CoinPool }
       \cup { <<"DecodeX", [str |-> p, len |-> 0, coin |-> 0, lang |-> k, wantlang |-> FALSE, idn |-> FALSE]>> : p \in PhrasePool, k \in LangPool }
       \cup { <<"Load", [buf |-> ImageBytes(p)]>> : p \in ImagePool }
        ELSE {})
  \cup { <<"Free", [h |-> h]>> : h \in Handles \cup {0} }
  \cup { <<"Crypt", [h |-> h, pw |-> Pw, len |-> 2]>> : h \in Handles }
  \cup (IF Rich THEN { <<"Encode", [h |-> h, lang |-> k, coin |-> c]>> : h \in Handles, k \in LangPool, c \in {2047} }
        ELSE {})
  \cup (IF Rich THEN { <<"Keygen", [h |-> h, coin |-> 2047, size |-> 32, size_mid |-> 0, size_hi |-> 0]>> : h \in Handles }
                \cup { <<"Store", [h |-> h]>> : h \in Handles }
                \cup { <<"Feature", [h |-> h, lo |-> 7, hi |-> 0]>> : h \in Handles }
        ELSE {})

MCBegin ==
    /\ ncalls < MaxCalls
    /\ \E c \in CallChoices :
          /\ Begin(c[1], c[2])
          /\ hist' = Append(hist, [e |-> "Begin", op |-> c[1], a |-> c[2]])
    /\ ncalls' = ncalls + 1

-----------------------------------------------------------------------------
(* the environment: dependency events the call in flight may see            *)

Implof(key) == deps[key]

OwnBlocks == AllocdBlocks \cap DOMAIN blocks
TargetBlock == IF call.op = "Free" /\ call.a.h # 0 THEN {heap[call.a.h].blk} \cap DOMAIN blocks ELSE {}

DepChoices ==
       (IF call.op \in ConstructorOps /\ Count("Alloc") = 0
        THEN { [e |-> "Alloc", impl |-> Implof("alloc"), size |-> 48, blk |-> b] : b \in {0, FreshBlock} }
        ELSE {})
  \cup (IF call.op = "Create" /\ OwnBlocks # {} /\ Count("Time") = 0
        THEN { [e |-> "Time", impl |-> Implof("time"), val |-> t] : t \in ClockPool }
        ELSE {})
  \cup (IF call.op = "Create" /\ Count("Time") = 1 /\ Count("Rand") = 0
        THEN { [e |-> "Rand", impl |-> Implof("rand"), n |-> 19, out |-> s] : s \in RandPool }
        ELSE {})
  \cup { [e |-> "Memzero", impl |-> Implof("memzero"), blk |-> b, off |-> 0, len |-> blocks[b].size] :
            b \in { x \in OwnBlocks \cup TargetBlock : ~FullyWiped(x) } }
  \cup { [e |-> "Free", impl |-> Implof("free"), blk |-> b, zero |-> TRUE] :
            b \in { x \in OwnBlocks \cup TargetBlock : FullyWiped(x) } }
  \cup (IF call.op = "Encode" /\ G(call.a.lang).compose /\ Count("Nfc") = 0
        THEN { [e |-> "Nfc", impl |-> Implof("nfc"), in |-> EncodeDecomposed(SeedOf(call.a.h), call.a.lang, call.a.coin),
                out |-> PhraseComposed(G(call.a.lang), PhraseWords(SeedOf(call.a.h), call.a.coin)),
                full |-> Len(PhraseComposed(G(call.a.lang), PhraseWords(SeedOf(call.a.h), call.a.coin)))] }
        ELSE {})
  \cup (IF call.op = "Keygen" /\ Count("Kdf") = 0
        THEN { [e |-> "Kdf", impl |-> Implof("kdf"), pwlen |-> 32, pw |-> KeygenPw(SeedOf(call.a.h)), saltlen |-> 32,
                salt |-> KeygenSalt(SeedOf(call.a.h), call.a.coin), iter_lo |-> 10000, iter_hi |-> 0,
                keylen |-> call.a.size, keylen_mid |-> 0, keylen_hi |-> 0, callerkey |-> TRUE, out |-> m] : m \in MaskPool }
        ELSE {})
  \cup (IF call.op = "Crypt" /\ Count("Kdf") = 0
        THEN { [e |-> "Kdf", impl |-> Implof("kdf"), pwlen |-> Len(call.a.pw), pw |-> call.a.pw, saltlen |-> 16,
                salt |-> MaskSalt, iter_lo |-> 10000, iter_hi |-> 0, keylen |-> 32, keylen_mid |-> 0, keylen_hi |-> 0, callerkey |-> FALSE, out |-> m] : m \in MaskPool }
        ELSE {})

MCDep ==
    /\ call # None
    /\ \E ev \in DepChoices :
          /\ Dep(ev)
          /\ hist' = Append(hist, ev)
    /\ UNCHANGED ncalls

-----------------------------------------------------------------------------
(* results the call may return (only those the contract accepts are steps)  *)

Base == [residue |-> <<>>, intact |-> TRUE, live |-> <<>>]

RetChoices ==
    LET op == call.op
    IN CASE op \in ConstructorOps ->
              { [e |-> "Ret", op |-> op, residue |-> <<>>, intact |-> TRUE, outw |-> FALSE, st |-> st,
                 h |-> (IF st = StOK THEN FreshHandle ELSE 0), blk |-> b,
                 langout |-> (IF op = "Decode" /\ st = StOK THEN G(call.a.str.lang).id ELSE "none")] :
                   st \in 0..7, b \in {0} \cup OwnBlocks }
         [] op = "Enable" -> { [e |-> "Ret", op |-> op, residue |-> <<>>, ret |-> n] : n \in 0..3 }
         [] op = "Keygen" -> { [e |-> "Ret", op |-> op, residue |-> <<>>, keyintact |-> TRUE] }
         [] op = "Crypt" -> { [e |-> "Ret", op |-> op, residue |-> <<>>, intact |-> TRUE] }
         [] op = "Store" -> { [e |-> "Ret", op |-> op, residue |-> <<>>, img |-> StoreImage(SeedOf(call.a.h)), spill |-> FALSE] }
         [] op = "Encode" -> { [e |-> "Ret", op |-> op, residue |-> <<>>, str |-> EncodeOut(SeedOf(call.a.h), call.a.lang, call.a.coin),
                                ret |-> Len(EncodeOut(SeedOf(call.a.h), call.a.lang, call.a.coin)), terminated |-> TRUE, spill |-> FALSE] }
         [] op = "Feature" -> { [e |-> "Ret", op |-> op, residue |-> <<>>, hi |-> 0, lo |-> v] : v \in 0..7 }
         [] OTHER -> { [e |-> "Ret", op |-> op, residue |-> <<>>] }

MCReturn ==
    /\ call # None
    /\ \E r \in RetChoices :
          /\ Return(r)
          /\ hist' = Append(hist, r)
    /\ UNCHANGED ncalls

MCInit == Init /\ ncalls = 0 /\ hist = <<>>
MCNext == MCBegin \/ MCDep \/ MCReturn
MCSpec == MCInit /\ [][MCNext]_mcvars

View == <<mask, deps, heap, blocks, call, ncalls>>

-----------------------------------------------------------------------------
(* properties                                                               *)

\* C13: every seed handed out is canonical; so storing, loading, encoding, decoding it succeed
CanonicalSeeds == Canonical
StorageRoundTrip ==
    \A h \in Handles : /\ LoadStatus(StoreImage(SeedOf(h)), 7) = StOK
                       /\ BufSeed(StoreImage(SeedOf(h))) = SeedOf(h)
PhraseRoundTrip ==
    \A h \in Handles : \A c \in CoinPool :
        /\ Valid(ApplyCoin(PhraseWords(SeedOf(h), c), c))
        /\ Unwords(ApplyCoin(PhraseWords(SeedOf(h), c), c)) = SeedOf(h)
\* C10: no seed with the reserved bit or a bit that was never enabled is ever handed out
NoReservedBit == \A h \in Handles : (SeedOf(h).features \div 8) % 2 = 0
\* C15: ledger
Ledger == OneBlockPerSeed /\ NoLeakAtRest
\* C16: a block is never released unwiped (Free steps are enabled only on wiped blocks: this states the
\* converse on states - no block in the ledger belongs to no seed and no call)
NoOrphanBlocks ==
    \A b \in DOMAIN blocks : (\E h \in Handles : heap[h].blk = b) \/ (call # None /\ b \in AllocdBlocks)
\* C18: the table in force is always one that was injected (or the initial one)
DepsWellFormed == \A k \in DOMAIN deps : deps[k] \in {"A", "B", "L"} /\ (deps[k] = "L" => k \in {"time", "alloc", "free"})

\* action properties
Isolation ==          \* a step changes at most the seed the call operates on
    [][\A g \in (DOMAIN heap) \cap (DOMAIN heap') :
          heap'[g] # heap[g] => (call.op = "Crypt" /\ g = call.a.h)]_mcvars
Stable ==             \* birthday, user features and reserved bit of a live seed never change; crypt toggles bit 4
    [][\A g \in (DOMAIN heap) \cap (DOMAIN heap') :
          /\ heap'[g].seed.birthday = heap[g].seed.birthday
          /\ heap'[g].seed.features % 16 = heap[g].seed.features % 16
          /\ heap'[g].blk = heap[g].blk
          /\ (heap'[g] # heap[g] => IsEncrypted(heap'[g].seed.features) # IsEncrypted(heap[g].seed.features))]_mcvars
OnlyEnableChangesMask == [][mask' # mask => (call.op = "Enable" /\ mask' = call.a.lo % 8)]_mcvars
OnlyInjectChangesDeps == [][deps' # deps => call.op = "Inject"]_mcvars
FailuresChangeNothing ==
    [][(call # None /\ call' = None /\ call.op \in ConstructorOps /\ DOMAIN heap' = DOMAIN heap)
          => (heap' = heap /\ DOMAIN blocks = call.blocks0)]_mcvars
NewSeedsAreSupported ==
    [][\A g \in (DOMAIN heap') \ (DOMAIN heap) : Supported(heap'[g].seed.features, mask)]_mcvars

Bound == ncalls <= MaxCalls

\* replay configuration: print every complete behaviour (no VIEW there: one state per behaviour prefix)
EmitBehaviours == (call = None /\ ncalls = MaxCalls) => PrintT(<<"HIST", ToJson(hist)>>)
=============================================================================
