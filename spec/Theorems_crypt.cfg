SPECIFICATION Spec
CONSTANT Family = "crypt"
INVARIANT Holds
CHECK_DEADLOCK FALSE
