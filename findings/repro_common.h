/* Minimal dependency set for the stand-alone reproducers of the defects found by the checks
   (independent of the conformance driver: these show the failing input against the real code). */
#include <polyseed.h>
#include <stdio.h>
#include <stdlib.h>
#include <string.h>
#include <utf8proc.h>
static unsigned char g_rand[19]; static uint64_t g_time = 1700000000;
static void r_rand(void* p, size_t n) { memcpy(p, g_rand, n < 19 ? n : 19); }
static void r_kdf(const uint8_t* pw, size_t pwlen, const uint8_t* salt, size_t saltlen, uint64_t it, uint8_t* key, size_t keylen) { memset(key, 0x42, keylen); }
static void r_zero(void* const p, const size_t n) { volatile unsigned char* q = p; for (size_t i = 0; i < n; ++i) q[i] = 0; }
static size_t r_norm(const char* s, polyseed_str out, int nfkd) {
    utf8proc_uint8_t* r = nfkd ? utf8proc_NFKD((const utf8proc_uint8_t*)s) : utf8proc_NFC((const utf8proc_uint8_t*)s);
    size_t n = r ? strlen((char*)r) : 0; if (n > POLYSEED_STR_SIZE - 1) n = POLYSEED_STR_SIZE - 1;
    if (r) memcpy(out, r, n); out[n] = 0; free(r); return n; }
static size_t r_nfc(const char* s, polyseed_str o) { return r_norm(s, o, 0); }
static size_t r_nfkd(const char* s, polyseed_str o) { return r_norm(s, o, 1); }
static uint64_t r_time(void) { return g_time; }
static void repro_inject(void) {
    polyseed_dependency d = { r_rand, r_kdf, r_zero, r_nfc, r_nfkd, r_time, NULL, NULL };
    polyseed_inject(&d);
}
static const polyseed_lang* repro_lang(const char* en) {
    for (int i = 0; i < polyseed_get_num_langs(); ++i)
        if (!strcmp(polyseed_get_lang_name_en(polyseed_get_lang(i)), en)) return polyseed_get_lang(i);
    return NULL;
}
