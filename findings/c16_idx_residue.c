/* C16: after a successful polyseed_decode (automatic language detection) the word indices of the
   phrase remain on the dead stack: the candidate index array idx[] of polyseed_phrase_decode
   (src/lang.c) is never wiped, unlike poly, words and str_tmp in its callers.
   Found by check C16 (executions *-phrase-paths-*, condition no-secret-residue-on-dead-stack).
   Build: gcc -O2 -DNDEBUG -DPOLYSEED_STATIC -I/repo/include -iquote /repo/src c16_idx_residue.c /repo/src/ALL.c -lutf8proc
   Prints how many runs of >= 3 consecutive word indices (as uint_fast16_t) are found; expected 0. */
#define _GNU_SOURCE
#include "repro_common.h"
#include <ucontext.h>
#include "gf.h"
#include "storage.h"
static ucontext_t mainc, callc; static unsigned char stk[1 << 17];
static const char* phrase = "raven tail swear infant grief assist regular lamp duck valid someone little harsh puppy airport language";
static polyseed_data* seed; static polyseed_status st;
/* a bump allocator: a custom allocator need not use more stack than this one */
static unsigned char pool[4096]; static size_t used;
static void* bump(size_t n) { void* p = pool + used; used += (n + 15) & ~(size_t)15; return p; }
static void nofree(void* p) { (void)p; }
static void body(void) { st = polyseed_decode(phrase, POLYSEED_MONERO, NULL, &seed); }
int main(void) {
    polyseed_dependency d = { r_rand, r_kdf, r_zero, r_nfc, r_nfkd, r_time, bump, nofree };
    polyseed_inject(&d);
    memset(stk, 0xA5, sizeof stk);
    getcontext(&callc); callc.uc_stack.ss_sp = stk; callc.uc_stack.ss_size = sizeof stk; callc.uc_link = &mainc;
    makecontext(&callc, body, 0); swapcontext(&mainc, &callc);
    if (st != POLYSEED_OK) return 2;
    gf_poly poly = {0}; poly.coeff[0] = seed->checksum; polyseed_data_to_poly(seed, &poly);
    int runs = 0;
    for (int i = 0; i + 3 <= 16; ++i) {
        uint_fast16_t needle[3] = { poly.coeff[i], poly.coeff[i + 1], poly.coeff[i + 2] };
        if (memmem(stk, sizeof stk, needle, sizeof needle)) { runs++; printf("indices %d..%d of the phrase found on the dead stack\n", i, i + 2); }
    }
    printf("%d residue runs\n", runs);
    return runs ? 1 : 0;
}
