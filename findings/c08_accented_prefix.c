/* C08: a token that is a >= 4 character prefix of a Spanish/French word and ends on an accented
   letter typed WITH its accent is rejected ("prisió" for "prisión", "pestañ" for "pestaña"), while
   the same token without the accent ("prisio") and the full word are accepted.
   compare_prefix_noaccent (src/lang.c) detects the last typed letter with key[1] == '\0', but the
   byte after the last letter is the first byte of its combining mark.
   Found by check C08 (executions tokens-es-*, tokens-fr-*, phrase-es-*).
   Build: gcc -DPOLYSEED_STATIC -I/repo/include c08_accented_prefix.c /repo/src/ALL.c -lutf8proc
   Expected: all three phrases decode to the same seed (status 0). */
#include "repro_common.h"
int main(void) {
    repro_inject();
    const polyseed_lang* es = repro_lang("Spanish");
    const char* full   = u8"eje fin parte célebre tabú pestaña lienzo puma prisión hora regalo lengua existir lápiz lote sonoro";
    const char* plain  = u8"eje fin parte célebre tabú pestan lienzo puma prisio hora regalo lengua existir lápiz lote sonoro";
    const char* accent = u8"eje fin parte célebre tabú pestañ lienzo puma prisió hora regalo lengua existir lápiz lote sonoro";
    polyseed_data* s; int bad = 0;
    polyseed_status a = polyseed_decode_explicit(full, POLYSEED_MONERO, es, &s);
    polyseed_status b = polyseed_decode_explicit(plain, POLYSEED_MONERO, es, &s);
    polyseed_status c = polyseed_decode_explicit(accent, POLYSEED_MONERO, es, &s);
    printf("full word: %d, prefix without accents: %d, prefix with accents: %d\n", a, b, c);
    return (a == 0 && b == 0 && c == 0) ? 0 : 1;
}
