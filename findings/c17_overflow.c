/* C17 (and through it C01, C13): a Korean seed whose decomposed phrase exceeds POLYSEED_STR_SIZE.
   Input taken from replay long-ko-0 of check C01.
   Build: clang -fsanitize=address -DPOLYSEED_STATIC -I/repo/include c17_overflow.c /repo/src/ALL.c -lutf8proc
   Pinned tree: AddressSanitizer stack-buffer-overflow in write_str (polyseed_encode).  Expected: prints lengths. */
#include "repro_common.h"
int main(void) {
    static const unsigned char rnd[19] = {0x0e,0x43,0x94,0xc4,0xc7,0x0e,0x4c,0x74,0xc7,0x79,0xde,0x65,0x8d,0x54,0x8b,0xde,0x71,0xb3,0x07};
    memcpy(g_rand, rnd, 19); g_time = 2867211185ull;
    repro_inject(); polyseed_enable_features(7);
    polyseed_data* s; if (polyseed_create(4, &s) != POLYSEED_OK) return 2;
    polyseed_str out; size_t n = polyseed_encode(s, repro_lang("Korean"), POLYSEED_MONERO, out);
    printf("returned %zu, strlen %zu, POLYSEED_STR_SIZE %d\n", n, strlen(out), POLYSEED_STR_SIZE);
    polyseed_data* t; polyseed_status st = polyseed_decode_explicit(out, POLYSEED_MONERO, repro_lang("Korean"), &t);
    printf("decode status %d\n", st);
    return (n < POLYSEED_STR_SIZE && st == POLYSEED_OK) ? 0 : 1;
}
