/* C19: with plain char unsigned (-funsigned-char; the default on ARM and PowerPC Linux) the library
   never detects non-ASCII input: utf8_nfkd_lazy (src/dependency.h) and the accent-skipping loops
   (src/lang.c) test `char < 0`.  Japanese phrases (ideographic spaces) then fail with NUM_WORDS,
   Korean/Spanish/French with LANG, passwords are not normalised, and the debug self-test aborts.
   Found by check C19 (executions uchar-lang-*).
   Build: gcc -funsigned-char -DNDEBUG -DPOLYSEED_STATIC -I/repo/include c19_unsigned_char.c /repo/src/ALL.c -lutf8proc
   Expected: every language round-trips (all statuses 0). */
#include "repro_common.h"
int main(void) {
    repro_inject();
    for (int i = 0; i < 19; ++i) g_rand[i] = (unsigned char)(i * 37 + 11);
    polyseed_data* s; if (polyseed_create(0, &s) != POLYSEED_OK) return 2;
    int bad = 0;
    for (int i = 0; i < polyseed_get_num_langs(); ++i) {
        const polyseed_lang* l = polyseed_get_lang(i);
        polyseed_str out; polyseed_encode(s, l, POLYSEED_MONERO, out);
        polyseed_data* t = NULL;
        polyseed_status st = polyseed_decode_explicit(out, POLYSEED_MONERO, l, &t);
        printf("%-22s decode_explicit status %d\n", polyseed_get_lang_name_en(l), st);
        if (st != POLYSEED_OK) bad++; else polyseed_free(t);
    }
    return bad ? 1 : 0;
}
